/* LD_PRELOAD shim: the monotonic clock runs RCE_VERIF_CLOCK_FACTOR times faster (default 200).
 * Used by C16 to run the real executable under a different clock speed: a fixed-depth search must
 * not depend on how fast time passes. Only clock_gettime on the monotonic clocks is scaled. */
#define _GNU_SOURCE
#include <dlfcn.h>
#include <stdlib.h>
#include <time.h>

static int (*real_gettime)(clockid_t, struct timespec *);
static struct timespec t0;
static int have_t0;
static long factor;

int clock_gettime(clockid_t id, struct timespec *ts) {
    if (!real_gettime) {
        real_gettime = (int (*)(clockid_t, struct timespec *))dlsym(RTLD_NEXT, "clock_gettime");
        const char *f = getenv("RCE_VERIF_CLOCK_FACTOR");
        factor = f ? atol(f) : 200;
        if (factor < 1) factor = 1;
    }
    int r = real_gettime(id, ts);
    if (r != 0) return r;
    if (id == CLOCK_MONOTONIC || id == CLOCK_MONOTONIC_RAW || id == CLOCK_BOOTTIME || id == CLOCK_MONOTONIC_COARSE) {
        if (!have_t0) { t0 = *ts; have_t0 = 1; }
        long long dn = (long long)(ts->tv_sec - t0.tv_sec) * 1000000000LL + (ts->tv_nsec - t0.tv_nsec);
        __int128 scaled = (__int128)dn * factor;
        long long total = (long long)t0.tv_sec * 1000000000LL + t0.tv_nsec + (long long)scaled;
        ts->tv_sec = total / 1000000000LL;
        ts->tv_nsec = total % 1000000000LL;
    }
    return 0;
}
