fn main() {
    // Only this crate (the engine sources + harness) sees the guard; dependencies are untouched.
    println!("cargo:rustc-cfg=rce_verif");
    println!("cargo:rustc-check-cfg=cfg(rce_verif)");
    println!("cargo:rerun-if-changed=build.rs");
}
