//! C17: the static evaluation is colour-symmetric.
//!  (a) on every position of the explorer walk;
//!  (b) on ALL material signatures with 0-2 of each of the ten non-king piece kinds (3^10).

use super::explore::{self, Budget, PathRef, Prop, Stats, Tables, Walk};
use super::oracle::{self, Pos};
use super::report::{self, i, obj, s, Coverage, Sink, J};
use super::seeds;
use super::Args;
use crate::board::Board;
use crate::evaluate::simple_evaluator::SimpleEvaluator;
use crate::evaluate::Evaluator;
use std::sync::atomic::{AtomicU64, Ordering};

fn eval_fen(fen: &str) -> i32 {
    let mut b = Board::from_fen(fen);
    i32::from(SimpleEvaluator.evaluate(&mut b))
}

/// Returns (eval(P), eval(mirror P), eval(P with the other side to move)).
fn triple(pos: &Pos, board: Option<&mut Board>) -> (i32, i32, i32) {
    let e = match board {
        Some(b) => i32::from(SimpleEvaluator.evaluate(b)),
        None => eval_fen(&pos.fen()),
    };
    let m = eval_fen(&pos.mirror().fen());
    let mut sw = pos.clone();
    sw.white = !sw.white;
    sw.ep_file = None;
    let w = eval_fen(&sw.fen());
    (e, m, w)
}

fn check(sink: &Sink, pos: &Pos, t: (i32, i32, i32), sig: String, replay: J) {
    let (e, m, w) = t;
    if e != m {
        sink.report(
            format!("{sig}|mirror"),
            format!("eval({}) = {e} but eval(colour mirror {}) = {m}", pos.fen(), pos.mirror().fen()),
            replay.clone(),
        );
    }
    if e != -w {
        sink.report(
            format!("{sig}|side"),
            format!("eval({}) = {e} but with the other side to move it is {w} (expected {})", pos.fen(), -e),
            replay,
        );
    }
}

/// Deterministic placement of a material signature: counts[k] in 0..=2 for
/// [wQ, wR, wB, wN, wP, bQ, bR, bB, bN, bP]; kings on e1 / e8.
pub fn signature_pos(counts: &[u8; 10], white_to_move: bool) -> Pos {
    let mut p = Pos::empty();
    p.sq[4] = oracle::K;
    p.sq[60] = -oracle::K;
    // officers go on the back ranks (skipping the king squares), pawns on the 2nd/3rd and 7th/6th
    let w_off = [0usize, 1, 2, 3, 5, 6, 7, 8];
    let b_off = [56usize, 57, 58, 59, 61, 62, 63, 48];
    let kinds = [oracle::Q, oracle::R, oracle::B, oracle::N];
    let mut wi = 0;
    let mut bi = 0;
    for (k, kind) in kinds.iter().enumerate() {
        for _ in 0..counts[k] {
            p.sq[w_off[wi]] = *kind;
            wi += 1;
        }
        for _ in 0..counts[5 + k] {
            p.sq[b_off[bi]] = -*kind;
            bi += 1;
        }
    }
    for n in 0..counts[4] as usize {
        p.sq[16 + 2 * n] = oracle::P; // a3, c3
    }
    for n in 0..counts[9] as usize {
        p.sq[40 + 2 * n + 1] = -oracle::P; // b6, d6
    }
    p.white = white_to_move;
    p
}

pub fn run(args: &Args) -> i32 {
    let thorough = args.tier == "thorough";
    let sink = Sink::new("C17", &args.tier);
    if let Err(e) = oracle::self_check(false) {
        eprintln!("MACHINERY: {e}");
        return 2;
    }
    // (b) the complete material grid
    let grid_cases = AtomicU64::new(0);
    let distinct_values: std::sync::Mutex<std::collections::BTreeSet<i32>> = Default::default();
    let total = 3u32.pow(10);
    let chunk = (total as usize).div_ceil(explore::threads());
    std::thread::scope(|sc| {
        for t in 0..explore::threads() {
            let (sink, grid_cases, distinct_values) = (&sink, &grid_cases, &distinct_values);
            sc.spawn(move || {
                let mut local = std::collections::BTreeSet::new();
                for code in (t * chunk)..((t + 1) * chunk).min(total as usize) {
                    let mut c = [0u8; 10];
                    let mut x = code;
                    for k in 0..10 {
                        c[k] = (x % 3) as u8;
                        x /= 3;
                    }
                    for wtm in [true, false] {
                        let p = signature_pos(&c, wtm);
                        let tr = triple(&p, None);
                        local.insert(tr.0);
                        grid_cases.fetch_add(1, Ordering::Relaxed);
                        check(sink, &p, tr, format!("grid|{code}|{wtm}"), obj(vec![("kind", s("eval")), ("fen", s(p.fen()))]));
                    }
                }
                distinct_values.lock().unwrap().extend(local);
            });
        }
    });
    // (a) every position of the walk
    let walked = AtomicU64::new(0);
    let collector = |board: &mut Board, pos: &Pos, path: &PathRef, _st: &mut Stats| {
        walked.fetch_add(1, Ordering::Relaxed);
        let tr = triple(pos, Some(board));
        check(&sink, pos, tr, path.sig("eval"), path.replay(vec![("fen_of_position", s(pos.fen()))]));
    };
    let walk = Walk {
        prop: Prop::Collect,
        sink: &sink,
        tables: Tables::new(1),
        collect: Some(&collector),
        perturb_per_seed: 0,
        perturb_insert: false,
    };
    let seeds = seeds::all();
    let b = if thorough {
        Budget { core: 8_000_000, feature: 600_000, bench: 120_000, max_depth: 7 }
    } else {
        Budget { core: 120_000, feature: 12_000, bench: 2_500, max_depth: 6 }
    };
    let out = explore::explore(&walk, &seeds, &b);
    if !out.machinery_errors.is_empty() {
        for e in &out.machinery_errors {
            eprintln!("MACHINERY: {e}");
        }
        return 2;
    }
    let grid = grid_cases.load(Ordering::Relaxed);
    let vals = distinct_values.into_inner().unwrap();
    let sample_p = signature_pos(&[1, 2, 0, 1, 2, 0, 1, 2, 2, 1], true);
    let cov = Coverage {
        states: out.distinct_states + grid,
        transitions: 3 * (out.stats.nodes + grid),
        traces: out.stats.nodes + grid,
        samples: vec![
            obj(vec![("material_grid_case", s(sample_p.fen())), ("mirror", s(sample_p.mirror().fen())), ("eval", i(eval_fen(&sample_p.fen())))]),
            obj(vec![("walk_seed", s(seeds[1].name.clone())), ("fen", s(seeds[1].fen.clone())), ("explored_to_depth", i(out.per_seed[1].completed_depth))]),
        ],
        exhaustive: None,
        extra: vec![
            ("material_grid_cases".into(), i(grid)),
            ("material_grid_exhaustive".into(), J::Bool(grid == 2 * u64::from(total))),
            ("distinct_eval_values_on_grid".into(), i(vals.len() as u64)),
            ("walk_positions".into(), i(out.stats.nodes)),
            ("walk_distinct_positions".into(), i(out.distinct_states)),
            ("completed_depth_per_seed".into(), explore::per_seed_json(&out)),
            ("rule".into(), s("states = distinct walk positions + material-grid cases; transitions = evaluator calls (position, mirror, side-swapped twin); the grid enumerates all 3^10 material signatures x both sides to move")),
        ],
        assumptions: vec![
            "mirrors and side-swapped twins are built by the oracle and loaded through Board::from_fen (checked by C07)".into(),
            "the material grid places each signature on one fixed arrangement of squares".into(),
        ],
    };
    report::finish(&sink, cov)
}

pub fn replay(doc: &J) -> i32 {
    let r = doc.get("replay");
    let fen = r
        .and_then(|x| x.get("fen_of_position").or_else(|| x.get("fen")))
        .and_then(|x| x.str())
        .unwrap_or("");
    let Ok(p) = Pos::from_fen(fen) else {
        eprintln!("MACHINERY: bad fen in replay");
        return 2;
    };
    let a = triple(&p, None);
    let b = triple(&p, None);
    if a != b {
        eprintln!("MACHINERY: replay not reproducible");
        return 2;
    }
    println!("eval={} mirror={} side-swapped={}", a.0, a.1, a.2);
    if a.0 != a.1 || a.0 != -a.2 {
        println!("violation reproduced");
        1
    } else {
        0
    }
}
