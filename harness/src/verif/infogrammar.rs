//! UCI `info` line grammar and the log-level oracles shared by C09 and C14.

use super::oracle::Pos;

#[derive(Debug, Clone, Default)]
pub struct Info {
    pub depth: Option<i64>,
    pub score_kind: Option<String>,
    pub score: Option<i64>,
    pub pv: Vec<String>,
    pub has_pv: bool,
}

fn is_move(t: &str) -> bool {
    let b = t.as_bytes();
    (b.len() == 4 || b.len() == 5)
        && (b'a'..=b'h').contains(&b[0])
        && (b'1'..=b'8').contains(&b[1])
        && (b'a'..=b'h').contains(&b[2])
        && (b'1'..=b'8').contains(&b[3])
        && (b.len() == 4 || matches!(b[4], b'q' | b'r' | b'b' | b'n'))
}

/// Parses one `info` line against the UCI grammar; Err = syntactically invalid.
pub fn parse_info(line: &str) -> Result<Info, String> {
    let t: Vec<&str> = line.split_whitespace().collect();
    if t.first() != Some(&"info") {
        return Err("does not start with 'info'".into());
    }
    let mut info = Info::default();
    let mut k = 1;
    let int = |x: Option<&&str>, what: &str| -> Result<i64, String> {
        x.ok_or(format!("'{what}' without a value"))?
            .parse::<i64>()
            .map_err(|_| format!("'{what}' value is not an integer"))
    };
    while k < t.len() {
        match t[k] {
            "depth" => {
                info.depth = Some(int(t.get(k + 1), "depth")?);
                k += 2;
            }
            "seldepth" | "time" | "nodes" | "nps" | "multipv" | "currmovenumber" | "hashfull" | "tbhits" | "cpuload" | "sbhits" => {
                let v = int(t.get(k + 1), t[k])?;
                if v < 0 {
                    return Err(format!("negative {}", t[k]));
                }
                k += 2;
            }
            "currmove" => {
                if !t.get(k + 1).is_some_and(|m| is_move(m)) {
                    return Err("currmove without a move".into());
                }
                k += 2;
            }
            "score" => {
                let kind = *t.get(k + 1).ok_or("'score' without cp/mate")?;
                if kind != "cp" && kind != "mate" {
                    return Err(format!("score kind '{kind}'"));
                }
                info.score_kind = Some(kind.to_string());
                info.score = Some(int(t.get(k + 2), "score")?);
                k += 3;
                if matches!(t.get(k), Some(&"lowerbound") | Some(&"upperbound")) {
                    k += 1;
                }
            }
            "pv" => {
                info.has_pv = true;
                k += 1;
                while k < t.len() && is_move(t[k]) {
                    info.pv.push(t[k].to_string());
                    k += 1;
                }
                if k < t.len() {
                    return Err(format!("token '{}' inside/after pv is not a move", t[k]));
                }
            }
            "string" => {
                k = t.len();
            }
            other => return Err(format!("unknown info token '{other}'")),
        }
    }
    Ok(info)
}

/// The C14 oracle on a captured log. `full_depth`: Some(N) for a search limited to depth N
/// and nothing else (must report every depth 1..=N). Returns a list of complaints.
pub fn check_log(log: &[String], root: &Pos, full_depth: Option<i64>) -> Vec<String> {
    let mut bad = vec![];
    let mut expect = 1i64;
    let mut seen_best = false;
    for line in log {
        if line.starts_with("info") {
            if seen_best {
                bad.push(format!("info line after bestmove: '{line}'"));
            }
            match parse_info(line) {
                Err(e) => bad.push(format!("malformed info line '{line}': {e}")),
                Ok(inf) => {
                    let Some(d) = inf.depth else {
                        // an info line without depth is not an iteration report
                        continue;
                    };
                    if d != expect {
                        bad.push(format!("iteration reports out of order: expected depth {expect}, got depth {d} ('{line}')"));
                    }
                    expect = d + 1;
                    if inf.score.is_none() {
                        bad.push(format!("iteration report without a score: '{line}'"));
                    }
                    if !inf.has_pv || inf.pv.is_empty() {
                        bad.push(format!("iteration report without a principal variation: '{line}'"));
                    }
                    let mut p = root.clone();
                    for (n, mv) in inf.pv.iter().enumerate() {
                        match p.legal_moves().into_iter().find(|m| m.uci() == *mv) {
                            Some(m) => p = p.make(&m),
                            None => {
                                bad.push(format!("pv move #{} '{mv}' is not legal (line '{line}', position {})", n + 1, p.fen()));
                                break;
                            }
                        }
                    }
                }
            }
        } else if line.starts_with("bestmove") {
            if seen_best {
                bad.push("more than one bestmove".into());
            }
            seen_best = true;
        }
    }
    if let Some(n) = full_depth {
        if expect != n + 1 {
            bad.push(format!("search limited to depth {n} reported depths 1..{} before its bestmove", expect - 1));
        }
        if !seen_best {
            bad.push("no bestmove".into());
        }
    }
    bad
}
