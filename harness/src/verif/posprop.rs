//! C08: `position startpos|fen F [moves ...]` sets up exactly the described game, or nothing.
//! In-process through the REAL command loop (rce_verif_run_script), in worker processes
//! (the loop logs refusals on stderr), plus conformance sessions on the real executable.

use super::eng;
use super::explore::{self, Budget, PathRef, Prop, Stats, Tables, Walk};
use super::oracle::{sq_name, Pos};
use super::report::{self, arr_s, i, obj, s, Coverage, Sink, J};
use super::seeds;
use super::session::{self, End, Model};
use super::workers::{self, Worker};
use super::Args;
use crate::board::Board;
use std::sync::atomic::{AtomicU64, Ordering};

fn run_script(lines: &[String]) -> Option<Board> {
    let mut script = lines.join("\n");
    script.push_str("\nquit\n");
    std::panic::catch_unwind(|| crate::uci::rce_verif_run_script(&script)).ok()
}

fn distinct(mut v: Vec<u64>) -> usize {
    v.sort_unstable();
    v.dedup();
    v.len()
}

/// Compares the session position with the reference model; returns a complaint.
fn compare(board: &Board, model: &Model) -> Option<String> {
    let seen = eng::observe(board);
    if seen != model.pos {
        return Some(format!("session position differs from the described game: {} (engine {} / expected {})", eng::diff(&seen, &model.pos), seen.fen(), model.pos.fen()));
    }
    let mut ids = model.earlier.clone();
    ids.sort();
    ids.dedup();
    let got = distinct(board.rce_verif_position_keys());
    if got != ids.len() {
        return Some(format!("session remembers {got} earlier positions, the described game has {} distinct ones", ids.len()));
    }
    None
}

fn report(w: &Worker, lines: &[String], tag: &str, why: String) {
    w.violation(&format!("{tag}|{}", lines.join(";")), &format!("session {:?}: {why}", lines), &session::session_json(lines, "quit"));
}

fn position_line(fen: &str, moves: &[String], startpos: bool) -> String {
    let mut l = if startpos { "position startpos".to_string() } else { format!("position fen {fen}") };
    if !moves.is_empty() {
        l.push_str(" moves ");
        l.push_str(&moves.join(" "));
    }
    l
}

/// corruptions of one move string that must not name a legal move at that point
fn corruptions(mv: &str, legal: &[String]) -> Vec<String> {
    let mut v = vec![
        mv.to_uppercase(),
        format!("{}{}", &mv[2..4], &mv[0..2]),
        mv[..3].to_string(),
        format!("{mv}x"),
        String::from("0000"),
    ];
    if mv.len() == 5 {
        v.push(mv[..4].to_string()); // promotion without its suffix
        v.push(format!("{}k", &mv[..4]));
    } else {
        v.push(format!("{mv}q")); // suffix on a non-promotion
    }
    v.retain(|c| !legal.iter().any(|l| l == c));
    v.dedup();
    v
}

pub fn worker(args: &Args, w: &Worker) -> i32 {
    std::env::set_var("VERIF_THREADS", "1");
    super::searchrun::quiet_panics();
    let thorough = args.tier == "thorough";
    let sink = Sink::new("C08", &args.tier); // unused by the collector; violations go through the worker
    let nth = AtomicU64::new(0);
    let alphabet_every = if thorough { 40 } else { 400 };
    let corrupt_every = if thorough { 2 } else { 9 };
    let collector = |board: &mut Board, pos: &Pos, path: &PathRef, _st: &mut Stats| {
        let n = nth.fetch_add(1, Ordering::Relaxed);
        // (a) the path as a position command
        let mut all: Vec<String> = path.seed.prefix.clone();
        all.extend(path.moves.iter().cloned());
        let mut variants = vec![(position_line(&path.seed.fen, &all, false), false)];
        if path.seed.fen == seeds::START {
            variants.push((position_line(&path.seed.fen, &all, true), true));
        }
        // UCI allows arbitrary white space between tokens: the same command with doubled spaces,
        // with tabs, and with leading/trailing blanks must set up the same position
        if n % 4 == 0 {
            let plain = variants[0].0.clone();
            variants.push((plain.replace(' ', "  "), false));
            variants.push((plain.replace(' ', "\t"), false));
            variants.push((format!("  {plain} \t"), false));
        }
        for (line, _) in &variants {
            w.count("position_commands", 1);
            let lines = vec!["position startpos moves d2d4 d7d5".to_string(), line.clone()];
            match run_script(&lines) {
                None => report(w, &lines, "panic", "the command loop panicked".into()),
                Some(b) => {
                    let seen = eng::observe(&b);
                    if seen != *pos {
                        report(w, &lines, "state", format!("position after the command differs from the game played under the rules: {}", eng::diff(&seen, pos)));
                    } else if eng::key(&b) != eng::key(board) || b.rce_verif_position_keys() != board.rce_verif_position_keys() {
                        report(w, &lines, "memory", "position key or record of earlier positions differs from the same game played move by move".into());
                    }
                }
            }
        }
        // (b) the complete coordinate-notation alphabet on a subset of positions
        if n % alphabet_every == 0 {
            let legal = super::searchrun::legal_uci(pos);
            w.count("positions_with_full_alphabet", 1);
            for from in 0..64u8 {
                for to in 0..64u8 {
                    for suffix in ["", "q", "r", "b", "n"] {
                        let t = format!("{}{}{}", sq_name(from), sq_name(to), suffix);
                        let want = legal.iter().any(|l| *l == t);
                        let got = board.find_move(&t).is_ok();
                        w.count("move_strings_tried", 1);
                        if got != want {
                            w.violation(
                                &format!("alphabet|{}|{t}", pos.fen()),
                                &format!("move string '{t}' at {}: engine {} it, the rules say it is {}", pos.fen(), if got { "accepts" } else { "refuses" }, if want { "legal" } else { "not legal" }),
                                &obj(vec![("kind", s("movestring")), ("fen", s(pos.fen())), ("move", s(t.clone()))]),
                            );
                        }
                    }
                }
            }
        }
        // (c) every single-move corruption of the path, inside a session that holds another position
        if n % corrupt_every == 0 && !all.is_empty() {
            let Ok(mut p) = Pos::from_fen(&path.seed.fen) else { return };
            let holder = "position startpos moves g1f3 g8f6".to_string();
            let mut held = Model::new();
            held.apply(&holder);
            for k in 0..all.len() {
                // long games: corrupt the first two and the last twelve moves only
                let corrupt_here = all.len() <= 40 || k < 2 || k + 12 >= all.len();
                let legal = if corrupt_here { super::searchrun::legal_uci(&p) } else { vec![] };
                for c in if corrupt_here { corruptions(&all[k], &legal) } else { vec![] } {
                    let mut bad = all.clone();
                    bad[k] = c;
                    let lines = vec![holder.clone(), position_line(&path.seed.fen, &bad, false)];
                    w.count("corrupted_commands", 1);
                    match run_script(&lines) {
                        None => report(w, &lines, "panic", "the command loop panicked".into()),
                        Some(b) => {
                            if let Some(why) = compare(&b, &held) {
                                report(w, &lines, "corrupt", format!("a move list with an illegal move ('{}' at index {k}) must be refused as a whole and leave the previous position in force: {why}", bad[k]));
                            }
                        }
                    }
                }
                let Some(m) = p.legal_moves().into_iter().find(|m| m.uci() == all[k]) else { break };
                p = p.make(&m);
            }
        }
    };
    let walk = Walk {
        prop: Prop::Collect,
        sink: &sink,
        tables: Tables::new(1),
        collect: Some(&collector),
        perturb_per_seed: 0,
        perturb_insert: false,
    };
    let all_seeds = seeds::all();
    let mine: Vec<seeds::Seed> = all_seeds.into_iter().enumerate().filter(|(k, _)| w.mine(*k)).map(|(_, sd)| sd).collect();
    let b = if thorough {
        Budget { core: 60_000, feature: 6_000, bench: 1_500, max_depth: 6 }
    } else {
        Budget { core: 1_500, feature: 300, bench: 60, max_depth: 4 }
    };
    let out = explore::explore(&walk, &mine, &b);
    for e in &out.machinery_errors {
        w.info("machinery", e);
    }
    w.count("walk_nodes", out.stats.nodes);
    w.count("walk_transitions", out.stats.transitions);

    // (d) all command sequences of length <= 4 over eight commands (two of them unparseable) against the session model
    if w.shard == 0 {
        let f = "r3k2r/p1ppqpb1/bn2pnp1/3PN3/1p2P3/2N2Q1p/PPPBBPPP/R3K2R w KQkq - 0 1";
        let cmds: Vec<String> = vec![
            "position startpos moves e2e4 e7e5 g1f3".into(),
            format!("position fen {f} moves e1g1 e8c8"),
            format!("position fen {f} moves e1g1 e8g8 a1a1"),
            "position fen 4k3/8/8/2pPp3/8/8/8/4K3 w - c6 0 2 moves d5c6".into(),
            "ucinewgame".into(),
            "isready".into(),
            // lines the parser rejects: they must leave no trace in the session
            "position".into(),
            "debug on".into(),
        ];
        let mut seqs: Vec<Vec<usize>> = vec![vec![]];
        let mut frontier = seqs.clone();
        for _ in 0..4 {
            let mut next = vec![];
            for sq in &frontier {
                for c in 0..cmds.len() {
                    let mut n2 = sq.clone();
                    n2.push(c);
                    next.push(n2);
                }
            }
            seqs.extend(next.iter().cloned());
            frontier = next;
        }
        for sq in &seqs {
            let lines: Vec<String> = sq.iter().map(|c| cmds[*c].clone()).collect();
            let mut model = Model::new();
            for l in &lines {
                model.apply(l);
            }
            w.count("command_sequences", 1);
            match run_script(&lines) {
                None => report(w, &lines, "panic", "the command loop panicked".into()),
                Some(b) => {
                    if let Some(why) = compare(&b, &model) {
                        report(w, &lines, "sequence", why);
                    }
                }
            }
        }
    }
    w.done()
}

pub fn run(args: &Args) -> i32 {
    let thorough = args.tier == "thorough";
    let sink = Sink::new("C08", &args.tier);
    let merged = match workers::fan_out("C08", &args.tier, &sink, &[]) {
        Ok(m) => m,
        Err(e) => {
            eprintln!("MACHINERY: {e}");
            return 2;
        }
    };
    if let Some(m) = merged.infos.get("machinery") {
        eprintln!("MACHINERY: {m}");
        return 2;
    }
    // conformance on the real executable: position command, then go depth 2; the bestmove
    // must be legal in the oracle's position
    let mut sessions: Vec<Vec<String>> = vec![];
    let seeds = seeds::all();
    let step = if thorough { 1 } else { 3 };
    for (k, sd) in seeds.iter().enumerate() {
        if k % step != 0 {
            continue;
        }
        let Ok((_, pos, _, _)) = explore::open_seed(sd) else { continue };
        // one ply further, so that the move list is never empty
        let Some(m) = pos.legal_moves().into_iter().nth(k % 3) else { continue };
        if pos.make(&m).legal_moves().is_empty() {
            continue;
        }
        let mut moves = sd.prefix.clone();
        moves.push(m.uci());
        sessions.push(vec![position_line(&sd.fen, &moves, false), "isready".into(), "go depth 2".into(), "isready".into()]);
    }
    // a position command that arrives while a search is running must be obeyed as well: the next
    // go (after stop) has to answer for the NEW position (old: White to move, new: Black to move)
    for (k, sd) in seeds.iter().enumerate() {
        if k % (step * 4) != 0 {
            continue;
        }
        let Ok((_, pos, _, _)) = explore::open_seed(sd) else { continue };
        if pos.legal_moves().is_empty() {
            continue;
        }
        let old = if pos.white { "position startpos moves e2e4" } else { "position startpos" };
        sessions.push(vec![old.to_string(), "go infinite".into(), position_line(&sd.fen, &sd.prefix, false), "isready".into(), "stop".into(), "go depth 1".into(), "isready".into()]);
    }
    let checked = AtomicU64::new(0);
    let machinery: std::sync::Mutex<Vec<String>> = std::sync::Mutex::new(vec![]);
    let next = std::sync::atomic::AtomicUsize::new(0);
    std::thread::scope(|sc| {
        for _ in 0..16 {
            sc.spawn(|| loop {
                let k = next.fetch_add(1, Ordering::Relaxed);
                if k >= sessions.len() {
                    break;
                }
                let lines = &sessions[k];
                match session::run(lines, End::Quit, true) {
                    Err(e) => machinery.lock().unwrap().push(e),
                    Ok(res) => {
                        checked.fetch_add(1, Ordering::Relaxed);
                        let mut bad = session::judge_gos(&res);
                        bad.extend(res.complaints.clone());
                        if let Some(first) = bad.first() {
                            sink.report(format!("process|{}", lines[0]), format!("real executable, session {:?}: {first}", lines), session::session_json(lines, "quit"));
                        }
                    }
                }
            });
        }
    });
    if let Some(e) = machinery.into_inner().unwrap().first() {
        eprintln!("MACHINERY: {e}");
        return 2;
    }
    let cmds = merged.get("position_commands") + merged.get("corrupted_commands") + merged.get("command_sequences");
    let mut extra: Vec<(String, J)> = merged.counters.iter().map(|(k, v)| (k.replace(':', "_"), i(*v))).collect();
    extra.push(("process_sessions".into(), i(checked.load(Ordering::Relaxed))));
    let cov = Coverage {
        states: merged.get("walk_nodes").max(1),
        transitions: (cmds + merged.get("move_strings_tried")).max(1),
        traces: cmds + checked.load(Ordering::Relaxed),
        samples: vec![
            s("position startpos moves d2d4 d7d5 ; position fen r3k2r/p1ppqpb1/bn2pnp1/3PN3/1p2P3/2N2Q1p/PPPBBPPP/R3K2R w KQkq - 0 1 moves e1g1 e8c8"),
            s("position startpos moves g1f3 g8f6 ; position startpos moves e2e4 E7E5   (must be refused, previous position stays)"),
            session::session_json(sessions.first().map_or(&[][..], |x| &x[..]), "quit"),
        ],
        exhaustive: None,
        extra,
        assumptions: vec![
            "FEN strings on the command line are valid and have six fields".into(),
            "the in-process layer drives the real uci_loop over an in-memory reader; the process layer checks that the executable behaves the same through stdin".into(),
        ],
    };
    report::finish(&sink, cov)
}

pub fn replay(doc: &J) -> i32 {
    let Some(r) = doc.get("replay") else { return 2 };
    match r.get("kind").and_then(|x| x.str()) {
        Some("movestring") => {
            let fen = r.get("fen").and_then(|x| x.str()).unwrap_or("");
            let mv = r.get("move").and_then(|x| x.str()).unwrap_or("");
            let Ok(p) = Pos::from_fen(fen) else { return 2 };
            let want = super::searchrun::legal_uci(&p).iter().any(|l| l == mv);
            let got = Board::from_fen(fen).find_move(mv).is_ok();
            println!("'{mv}' at {fen}: engine accepts={got}, legal={want}");
            if got != want {
                1
            } else {
                0
            }
        }
        Some("session") => {
            let lines = r.get("lines").map(|x| x.str_list()).unwrap_or_default();
            if lines.iter().any(|l| l.starts_with("go")) {
                return super::procprops::replay_session("C08", r);
            }
            super::searchrun::quiet_panics();
            let mut model = Model::new();
            for l in &lines {
                model.apply(l);
            }
            let a = run_script(&lines).map(|b| compare(&b, &model));
            let b2 = run_script(&lines).map(|b| compare(&b, &model));
            if a != b2 {
                return 2;
            }
            match a {
                None => {
                    println!("violation reproduced: the command loop panicked");
                    1
                }
                Some(Some(why)) => {
                    println!("violation reproduced: {why}");
                    1
                }
                Some(None) => {
                    println!("no violation");
                    0
                }
            }
        }
        _ => 2,
    }
}
