//! C05 (d): the position cache itself. After a real search with the cache on, every key under
//! which the search wrote an entry (seen by the observer hook) and every key left in the cache
//! must be the key of a position of the search's own look-ahead game: full width to the nominal
//! depth (one more ply when in check), then every capture sequence. That set is ENUMERATED on
//! the oracle without any pruning (a superset of what an alpha-beta search can visit); a key
//! outside it means some position was cached under the key of a position that is not it.

use super::eng;
use super::oracle::{Ident, Pos};
use super::report::{i, obj, s, Sink, J};
use super::searchrun::{self, Case, Cut, Limits, Opts};
use crate::board::Board;
use std::collections::HashSet;

struct Enum<'a> {
    history: &'a [Ident],
    seen: HashSet<Ident>,
    /// positions whose capture-only subtree has been expanded already (it does not depend on the path)
    expanded: HashSet<Ident>,
    /// engine keys of the distinct positions (computed once per new position, from its FEN)
    keys: HashSet<u64>,
    budget: u64,
    over: bool,
}

impl Enum<'_> {
    fn note(&mut self, pos: &Pos) -> bool {
        if self.budget == 0 {
            self.over = true;
            return false;
        }
        self.budget -= 1;
        if self.seen.insert(pos.ident()) {
            self.keys.insert(eng::key(&Board::from_fen(&pos.fen())));
        }
        true
    }

    fn captures(&mut self, pos: &Pos) {
        if !self.note(pos) {
            return;
        }
        if !self.expanded.insert(pos.ident()) {
            return;
        }
        for m in pos.legal_moves() {
            if m.captured != 0 {
                self.captures(&pos.make(&m));
                if self.over {
                    return;
                }
            }
        }
    }

    fn full(&mut self, pos: &Pos, depth: u32, path: &mut Vec<Ident>) {
        if !self.note(pos) {
            return;
        }
        let id = pos.ident();
        if pos.halfmove >= 100 || self.history.contains(&id) || path.contains(&id) {
            return;
        }
        let d = depth + u32::from(pos.in_check(pos.white));
        if d == 0 {
            // the horizon node itself was noted above; below it only captures
            if !self.expanded.insert(id) {
                return;
            }
            for m in pos.legal_moves() {
                if m.captured != 0 {
                    self.captures(&pos.make(&m));
                    if self.over {
                        return;
                    }
                }
            }
            return;
        }
        path.push(id);
        for m in pos.legal_moves() {
            self.full(&pos.make(&m), d - 1, path);
            if self.over {
                break;
            }
        }
        path.pop();
    }
}

/// (name, fen, history, depth): pawn-rich positions in which double steps happen inside the tree
const CASES: &[(&str, &str, &str, u8)] = &[
    // (piece-rich positions are out of reach: the set of ALL capture sequences below a middlegame
    // horizon runs into the tens of millions)
    ("start", "rnbqkbnr/pppppppp/8/8/8/8/PPPPPPPP/RNBQKBNR w KQkq - 0 1", "", 2),
    ("bishops-and-pawns", "2b1k3/pppp1ppp/8/8/8/8/PPPP1PPP/2B1K3 w - - 0 1", "", 5),
    ("queen-and-pawns", "3qk3/ppp2ppp/8/8/8/8/PPP2PPP/3QK3 b - - 0 1", "", 4),
    ("ep-available", "4k3/8/8/2pPp3/8/8/8/4K3 w - c6 0 2", "", 5),
    ("two-kings-pawns", "8/p7/8/8/8/8/P7/K6k b - - 0 1", "", 6),
    ("pawn-walls", "4k3/pppppppp/8/8/8/8/PPPPPPPP/4K3 w - - 0 1", "", 4),
    ("knights-and-pawns", "1n2k1n1/pppp1ppp/8/8/8/8/PPP1PPPP/1N2K1N1 b - - 0 1", "", 5),
    ("rook-ending", "4k3/p4p2/8/8/8/8/1P4P1/R3K3 w Q - 0 1", "", 5),
    ("knight-ending", "4k3/p4p2/8/8/8/8/1P4P1/1N2K3 w - - 0 1", "", 5),
    ("bishop-ending-b", "2b1k3/1p4p1/8/8/8/8/P4P2/4K3 b - - 0 1", "", 5),
    ("promo-race", "8/1P6/8/8/8/8/1p6/K6k w - - 0 1", "", 4),
];

pub struct Summary {
    pub searches: u64,
    pub tree_positions: u64,
    pub keys_checked: u64,
    pub skipped_over_budget: u64,
}

pub fn check(sink: &Sink, thorough: bool) -> Summary {
    searchrun::quiet_panics();
    let mut sum = Summary { searches: 0, tree_positions: 0, keys_checked: 0, skipped_over_budget: 0 };
    // phase 1 (parallel, pure): the key sets of the look-ahead games
    struct Job {
        name: &'static str,
        fen: &'static str,
        hist: &'static str,
        depth: u8,
    }
    let mut jobs: Vec<Job> = vec![];
    for (name, fen, hist, maxd) in CASES {
        let maxd = if thorough { *maxd } else { (*maxd).min(5) };
        for depth in 2..=maxd {
            jobs.push(Job { name, fen, hist, depth });
        }
    }
    let budget: u64 = if thorough { 40_000_000 } else { 6_000_000 };
    let results: std::sync::Mutex<Vec<(usize, Option<(HashSet<u64>, usize)>)>> = std::sync::Mutex::new(vec![]);
    let next = std::sync::atomic::AtomicUsize::new(0);
    std::thread::scope(|sc| {
        for _ in 0..super::explore::threads().min(jobs.len().max(1)) {
            sc.spawn(|| loop {
                let k = next.fetch_add(1, std::sync::atomic::Ordering::Relaxed);
                if k >= jobs.len() {
                    break;
                }
                let j = &jobs[k];
                let history: Vec<String> = j.hist.split_whitespace().map(str::to_string).collect();
                let Ok((_, pos, idents)) = searchrun::open(j.fen, &history) else {
                    results.lock().unwrap().push((k, None));
                    continue;
                };
                // the look-ahead games of all iterations 1..depth (iteration d's quiescence starts at ply d)
                let mut e = Enum { history: &idents, seen: HashSet::new(), expanded: HashSet::new(), keys: HashSet::new(), budget, over: false };
                for d in 1..=j.depth {
                    e.full(&pos, u32::from(d), &mut vec![]);
                    if e.over {
                        break;
                    }
                }
                if std::env::var("VERIF_DEBUG").is_ok() {
                    eprintln!("cache-key job {} depth {}: visited {} distinct {} over {}", j.name, j.depth, budget - e.budget, e.seen.len(), e.over);
                }
                let r = if e.over { None } else { Some((e.keys, e.seen.len())) };
                results.lock().unwrap().push((k, r));
            });
        }
    });
    let mut results = results.into_inner().unwrap();
    results.sort_by_key(|x| x.0);
    // phase 2 (serial: the cache is process-wide): the real searches
    for (k, r) in results {
        let j = &jobs[k];
        let Some((keys, npos)) = r else {
            sum.skipped_over_budget += 1;
            continue;
        };
        let history: Vec<String> = j.hist.split_whitespace().map(str::to_string).collect();
        let Ok((board, _, _)) = searchrun::open(j.fen, &history) else { continue };
        sum.tree_positions += npos as u64;
        let case = Case {
            fen: j.fen.to_string(),
            history: history.clone(),
            limits: Limits { depth: Some(u128::from(j.depth)), ..Default::default() },
            max_depth: Some(j.depth),
            cut: Cut::ClockNever,
            elapsed_ms: None,
        };
        let out = searchrun::run(&board, &case, &Opts { clear_cache: true, observe: true, neutral: false });
        sum.searches += 1;
        if out.panicked.is_some() {
            continue; // C09's matter
        }
        let mut bad: Option<(u64, String)> = None;
        for w in &out.writes {
            sum.keys_checked += 1;
            if !keys.contains(&w.key) && bad.is_none() {
                bad = Some((w.key, format!("written at insert site {} with move {} depth {} score {}", w.site, w.entry.best_ply.to_notation(), w.entry.depth, w.entry.score)));
            }
        }
        for (key, en) in &out.cache_at_end {
            sum.keys_checked += 1;
            if !keys.contains(key) && bad.is_none() {
                bad = Some((*key, format!("left in the cache with move {} depth {} score {}", en.best_ply.to_notation(), en.depth, en.score)));
            }
        }
        if let Some((key, how)) = bad {
            sink.report(
                format!("cache-key|{}", j.name),
                format!(
                    "after 'go depth {}' on {} [{}] ({}) the position cache holds an entry under key {key} ({how}), which is the key of none of the {npos} positions of the search's look-ahead game: a position was cached under the key of a different one",
                    j.depth, j.fen, j.hist, j.name
                ),
                obj(vec![("kind", s("cache-key")), ("fen", s(j.fen.to_string())), ("history", super::report::arr_s(&history)), ("depth", i(u64::from(j.depth)))]),
            );
        }
    }
    sum
}

pub fn replay(r: &J) -> i32 {
    let sink = Sink::new("C05", "quick");
    let fen = r.get("fen").and_then(|x| x.str()).unwrap_or("").to_string();
    // re-run the whole small case list entry that matches (the enumeration is deterministic)
    let _ = fen;
    let a = check(&sink, false);
    let n = sink.count();
    println!("cache-key check: {} searches, {} keys checked, {n} violation(s)", a.searches, a.keys_checked);
    for v in sink.take() {
        println!("  {}", v.what);
    }
    i32::from(n > 0)
}
