//! Independent reference model of the rules of chess ("the oracle").
//!
//! Shares no code and no technique with the engine: 8x8 mailbox, rays walked square by
//! square, attack detection by scanning outward from the target square, legality by
//! copy-make + "is my king attacked". Written from the FIDE Laws (articles 3.1-3.9,
//! 5.1, 5.2, 9.2, 9.3) and from the conventions stated in the property texts:
//!   * the en-passant *file* is present exactly on the ply after ANY double pawn push
//!     (engine convention, C03/C04), whether or not a capture is possible;
//!   * castling rights are lost when the king or that rook moved or that rook was captured.
//!
//! Squares: index = rank*8 + file, a1 = 0, h8 = 63.
//! Pieces: 0 empty; 1..6 = white P N B R Q K; -1..-6 = black.

use std::fmt::Write as _;

pub const P: i8 = 1;
pub const N: i8 = 2;
pub const B: i8 = 3;
pub const R: i8 = 4;
pub const Q: i8 = 5;
pub const K: i8 = 6;

pub const WK: usize = 0;
pub const WQ: usize = 1;
pub const BK: usize = 2;
pub const BQ: usize = 3;

#[derive(Clone, PartialEq, Eq, Hash, Debug)]
pub struct Pos {
    pub sq: [i8; 64],
    pub white: bool,
    pub castle: [bool; 4],
    pub ep_file: Option<u8>,
    pub halfmove: u32,
    pub fullmove: u32,
}

/// What "the same position" means for keys: placement, side, rights, en-passant file.
#[derive(Clone, Copy, PartialEq, Eq, Hash, Debug, PartialOrd, Ord)]
pub struct Ident(pub [u8; 34]);

#[derive(Clone, Copy, PartialEq, Eq, Hash, Debug, PartialOrd, Ord)]
pub struct Mv {
    pub from: u8,
    pub to: u8,
    pub piece: i8,
    pub captured: i8,
    pub promo: i8,
    pub castle: bool,
    pub ep: bool,
    pub double: bool,
}

pub fn sq_name(s: u8) -> String {
    let mut o = String::new();
    o.push((b'a' + (s & 7)) as char);
    o.push((b'1' + (s >> 3)) as char);
    o
}

pub fn piece_char(p: i8) -> char {
    let c = match p.abs() {
        1 => 'p',
        2 => 'n',
        3 => 'b',
        4 => 'r',
        5 => 'q',
        6 => 'k',
        _ => '?',
    };
    if p > 0 {
        c.to_ascii_uppercase()
    } else {
        c
    }
}

impl Mv {
    pub fn uci(&self) -> String {
        let mut s = sq_name(self.from);
        s.push_str(&sq_name(self.to));
        if self.promo != 0 {
            s.push(piece_char(-self.promo.abs()));
        }
        s
    }
}

const KNIGHT_D: [(i8, i8); 8] = [
    (1, 2),
    (2, 1),
    (2, -1),
    (1, -2),
    (-1, -2),
    (-2, -1),
    (-2, 1),
    (-1, 2),
];
const KING_D: [(i8, i8); 8] = [
    (0, 1),
    (1, 1),
    (1, 0),
    (1, -1),
    (0, -1),
    (-1, -1),
    (-1, 0),
    (-1, 1),
];
const ROOK_D: [(i8, i8); 4] = [(0, 1), (1, 0), (0, -1), (-1, 0)];
const BISHOP_D: [(i8, i8); 4] = [(1, 1), (1, -1), (-1, -1), (-1, 1)];

#[inline]
fn step(s: u8, df: i8, dr: i8) -> Option<u8> {
    let f = (s & 7) as i8 + df;
    let r = (s >> 3) as i8 + dr;
    if (0..8).contains(&f) && (0..8).contains(&r) {
        Some((r * 8 + f) as u8)
    } else {
        None
    }
}

impl Pos {
    pub fn empty() -> Pos {
        Pos {
            sq: [0; 64],
            white: true,
            castle: [false; 4],
            ep_file: None,
            halfmove: 0,
            fullmove: 1,
        }
    }

    pub fn startpos() -> Pos {
        Pos::from_fen("rnbqkbnr/pppppppp/8/8/8/8/PPPPPPPP/RNBQKBNR w KQkq - 0 1").unwrap()
    }

    /// Independent FEN reader (6 fields, or 4 fields with counters defaulting to 0 / 1).
    pub fn from_fen(fen: &str) -> Result<Pos, String> {
        let f: Vec<&str> = fen.split_whitespace().collect();
        if f.len() != 4 && f.len() != 6 {
            return Err(format!("FEN needs 4 or 6 fields: {fen}"));
        }
        let mut p = Pos::empty();
        let ranks: Vec<&str> = f[0].split('/').collect();
        if ranks.len() != 8 {
            return Err("placement needs 8 ranks".into());
        }
        for (i, row) in ranks.iter().enumerate() {
            let rank = 7 - i as u8;
            let mut file = 0u8;
            for ch in row.chars() {
                if let Some(d) = ch.to_digit(10) {
                    file += d as u8;
                } else {
                    let pc = match ch.to_ascii_lowercase() {
                        'p' => P,
                        'n' => N,
                        'b' => B,
                        'r' => R,
                        'q' => Q,
                        'k' => K,
                        _ => return Err(format!("bad piece char {ch}")),
                    };
                    if file > 7 {
                        return Err("rank overflow".into());
                    }
                    p.sq[(rank * 8 + file) as usize] = if ch.is_ascii_uppercase() { pc } else { -pc };
                    file += 1;
                }
            }
            if file != 8 {
                return Err(format!("rank {row} does not have 8 files"));
            }
        }
        p.white = match f[1] {
            "w" => true,
            "b" => false,
            _ => return Err("bad side".into()),
        };
        for ch in f[2].chars() {
            match ch {
                'K' => p.castle[WK] = true,
                'Q' => p.castle[WQ] = true,
                'k' => p.castle[BK] = true,
                'q' => p.castle[BQ] = true,
                '-' => {}
                _ => return Err("bad castling".into()),
            }
        }
        p.ep_file = match f[3] {
            "-" => None,
            s => {
                let c = s.as_bytes()[0];
                if !(b'a'..=b'h').contains(&c) {
                    return Err("bad ep".into());
                }
                Some(c - b'a')
            }
        };
        if f.len() == 6 {
            p.halfmove = f[4].parse().map_err(|_| "bad halfmove")?;
            p.fullmove = f[5].parse().map_err(|_| "bad fullmove")?;
        }
        Ok(p)
    }

    pub fn placement_fen(&self) -> String {
        let mut s = String::new();
        for rank in (0..8).rev() {
            let mut run = 0;
            for file in 0..8 {
                let pc = self.sq[rank * 8 + file];
                if pc == 0 {
                    run += 1;
                } else {
                    if run > 0 {
                        let _ = write!(s, "{run}");
                        run = 0;
                    }
                    s.push(piece_char(pc));
                }
            }
            if run > 0 {
                let _ = write!(s, "{run}");
            }
            if rank > 0 {
                s.push('/');
            }
        }
        s
    }

    fn castle_str(&self) -> String {
        let mut c = String::new();
        for (i, ch) in ['K', 'Q', 'k', 'q'].iter().enumerate() {
            if self.castle[i] {
                c.push(*ch);
            }
        }
        if c.is_empty() {
            c.push('-');
        }
        c
    }

    fn ep_str(&self) -> String {
        match self.ep_file {
            None => "-".to_string(),
            // the square behind the pawn that just double-pushed
            Some(f) => format!("{}{}", (b'a' + f) as char, if self.white { '6' } else { '3' }),
        }
    }

    pub fn fen(&self) -> String {
        format!(
            "{} {} {} {} {} {}",
            self.placement_fen(),
            if self.white { 'w' } else { 'b' },
            self.castle_str(),
            self.ep_str(),
            self.halfmove,
            self.fullmove
        )
    }

    pub fn fen4(&self) -> String {
        format!(
            "{} {} {} {}",
            self.placement_fen(),
            if self.white { 'w' } else { 'b' },
            self.castle_str(),
            self.ep_str()
        )
    }

    pub fn ident(&self) -> Ident {
        let mut b = [0u8; 34];
        for i in 0..32 {
            let lo = (self.sq[2 * i] + 6) as u8;
            let hi = (self.sq[2 * i + 1] + 6) as u8;
            b[i] = lo | (hi << 4);
        }
        b[32] = (self.white as u8)
            | ((self.castle[0] as u8) << 1)
            | ((self.castle[1] as u8) << 2)
            | ((self.castle[2] as u8) << 3)
            | ((self.castle[3] as u8) << 4);
        b[33] = self.ep_file.map_or(0xff, |f| f);
        Ident(b)
    }

    pub fn king_sq(&self, white: bool) -> Option<u8> {
        let k = if white { K } else { -K };
        (0..64u8).find(|&s| self.sq[s as usize] == k)
    }

    /// Is square `s` attacked by a piece of colour `by_white`? Scans outward from `s`.
    pub fn attacked(&self, s: u8, by_white: bool) -> bool {
        let sign: i8 = if by_white { 1 } else { -1 };
        // pawns: a white pawn on (f±1, r-1) attacks s; a black pawn on (f±1, r+1)
        let dr = if by_white { -1 } else { 1 };
        for df in [-1i8, 1] {
            if let Some(t) = step(s, df, dr) {
                if self.sq[t as usize] == sign * P {
                    return true;
                }
            }
        }
        for (df, dr) in KNIGHT_D {
            if let Some(t) = step(s, df, dr) {
                if self.sq[t as usize] == sign * N {
                    return true;
                }
            }
        }
        for (df, dr) in KING_D {
            if let Some(t) = step(s, df, dr) {
                if self.sq[t as usize] == sign * K {
                    return true;
                }
            }
        }
        for (df, dr) in ROOK_D {
            let mut cur = s;
            while let Some(t) = step(cur, df, dr) {
                let pc = self.sq[t as usize];
                if pc != 0 {
                    if pc == sign * R || pc == sign * Q {
                        return true;
                    }
                    break;
                }
                cur = t;
            }
        }
        for (df, dr) in BISHOP_D {
            let mut cur = s;
            while let Some(t) = step(cur, df, dr) {
                let pc = self.sq[t as usize];
                if pc != 0 {
                    if pc == sign * B || pc == sign * Q {
                        return true;
                    }
                    break;
                }
                cur = t;
            }
        }
        false
    }

    pub fn in_check(&self, white: bool) -> bool {
        match self.king_sq(white) {
            Some(k) => self.attacked(k, !white),
            None => false,
        }
    }

    /// Number of enemy pieces giving check to `white`'s king (for feature counting).
    pub fn checkers(&self, white: bool) -> u32 {
        let Some(k) = self.king_sq(white) else { return 0 };
        let mut n = 0;
        for s in 0..64u8 {
            let pc = self.sq[s as usize];
            if pc == 0 || (pc > 0) == white {
                continue;
            }
            // does the piece on s attack k? test by removing every other attacker: simplest
            // is a dedicated single-piece attack test
            if self.piece_attacks(s, k) {
                n += 1;
            }
        }
        n
    }

    /// Does the piece standing on `from` attack square `to` (given current occupancy)?
    pub fn piece_attacks(&self, from: u8, to: u8) -> bool {
        let pc = self.sq[from as usize];
        if pc == 0 || from == to {
            return false;
        }
        let df = (to & 7) as i8 - (from & 7) as i8;
        let dr = (to >> 3) as i8 - (from >> 3) as i8;
        match pc.abs() {
            1 => dr == (if pc > 0 { 1 } else { -1 }) && df.abs() == 1,
            2 => (df.abs() == 1 && dr.abs() == 2) || (df.abs() == 2 && dr.abs() == 1),
            6 => df.abs() <= 1 && dr.abs() <= 1,
            t => {
                let straight = df == 0 || dr == 0;
                let diag = df.abs() == dr.abs();
                let ok = match t {
                    3 => diag,
                    4 => straight,
                    _ => straight || diag,
                };
                if !ok {
                    return false;
                }
                let (sf, sr) = (df.signum(), dr.signum());
                let mut cur = from;
                loop {
                    cur = step(cur, sf, sr).unwrap();
                    if cur == to {
                        return true;
                    }
                    if self.sq[cur as usize] != 0 {
                        return false;
                    }
                }
            }
        }
    }

    fn push_pawn_move(&self, out: &mut Vec<Mv>, from: u8, to: u8, captured: i8, ep: bool, double: bool) {
        let pc = self.sq[from as usize];
        let last_rank = if pc > 0 { 7 } else { 0 };
        if to >> 3 == last_rank {
            for pr in [Q, R, B, N] {
                out.push(Mv {
                    from,
                    to,
                    piece: pc,
                    captured,
                    promo: pr * pc.signum(),
                    castle: false,
                    ep,
                    double,
                });
            }
        } else {
            out.push(Mv {
                from,
                to,
                piece: pc,
                captured,
                promo: 0,
                castle: false,
                ep,
                double,
            });
        }
    }

    /// Pseudo-legal moves (castling already fully tested; everything else may leave the king en prise).
    pub fn pseudo_moves(&self) -> Vec<Mv> {
        let mut out = Vec::with_capacity(48);
        let sign: i8 = if self.white { 1 } else { -1 };
        for from in 0..64u8 {
            let pc = self.sq[from as usize];
            if pc == 0 || pc.signum() != sign {
                continue;
            }
            match pc.abs() {
                1 => {
                    let dr = sign;
                    let start_rank = if self.white { 1 } else { 6 };
                    if let Some(t) = step(from, 0, dr) {
                        if self.sq[t as usize] == 0 {
                            self.push_pawn_move(&mut out, from, t, 0, false, false);
                            if from >> 3 == start_rank {
                                if let Some(t2) = step(t, 0, dr) {
                                    if self.sq[t2 as usize] == 0 {
                                        self.push_pawn_move(&mut out, from, t2, 0, false, true);
                                    }
                                }
                            }
                        }
                    }
                    for df in [-1i8, 1] {
                        if let Some(t) = step(from, df, dr) {
                            let target = self.sq[t as usize];
                            if target != 0 && target.signum() != sign {
                                self.push_pawn_move(&mut out, from, t, target, false, false);
                            }
                        }
                    }
                    // en passant: my pawn on its fifth rank, adjacent file to the pawn that
                    // has just advanced two squares
                    if let Some(ef) = self.ep_file {
                        let fifth = if self.white { 4 } else { 3 };
                        if from >> 3 == fifth && ((from & 7) as i8 - ef as i8).abs() == 1 {
                            let victim_sq = fifth * 8 + ef;
                            let to = if self.white { victim_sq + 8 } else { victim_sq - 8 };
                            if self.sq[victim_sq as usize] == -sign * P && self.sq[to as usize] == 0 {
                                self.push_pawn_move(&mut out, from, to, -sign * P, true, false);
                            }
                        }
                    }
                }
                2 | 6 => {
                    let deltas = if pc.abs() == 2 { &KNIGHT_D } else { &KING_D };
                    for &(df, dr) in deltas {
                        if let Some(t) = step(from, df, dr) {
                            let target = self.sq[t as usize];
                            if target == 0 || target.signum() != sign {
                                out.push(Mv {
                                    from,
                                    to: t,
                                    piece: pc,
                                    captured: target,
                                    promo: 0,
                                    castle: false,
                                    ep: false,
                                    double: false,
                                });
                            }
                        }
                    }
                    if pc.abs() == 6 {
                        self.castling_moves(&mut out, from);
                    }
                }
                t => {
                    let mut dirs: Vec<(i8, i8)> = Vec::with_capacity(8);
                    if t == 4 || t == 5 {
                        dirs.extend_from_slice(&ROOK_D);
                    }
                    if t == 3 || t == 5 {
                        dirs.extend_from_slice(&BISHOP_D);
                    }
                    for (df, dr) in dirs {
                        let mut cur = from;
                        while let Some(tq) = step(cur, df, dr) {
                            let target = self.sq[tq as usize];
                            if target == 0 {
                                out.push(Mv {
                                    from,
                                    to: tq,
                                    piece: pc,
                                    captured: 0,
                                    promo: 0,
                                    castle: false,
                                    ep: false,
                                    double: false,
                                });
                            } else {
                                if target.signum() != sign {
                                    out.push(Mv {
                                        from,
                                        to: tq,
                                        piece: pc,
                                        captured: target,
                                        promo: 0,
                                        castle: false,
                                        ep: false,
                                        double: false,
                                    });
                                }
                                break;
                            }
                            cur = tq;
                        }
                    }
                }
            }
        }
        out
    }

    /// FIDE 3.8.2: right still held; king and rook on their original squares; all squares
    /// between them empty; king not in check, does not cross or land on an attacked square.
    fn castling_moves(&self, out: &mut Vec<Mv>, king_from: u8) {
        let (home, ks, qs, rook) = if self.white { (4u8, WK, WQ, R) } else { (60u8, BK, BQ, -R) };
        if king_from != home {
            return;
        }
        let enemy_white = !self.white;
        let king = self.sq[home as usize];
        if self.castle[ks]
            && self.sq[(home + 3) as usize] == rook
            && self.sq[(home + 1) as usize] == 0
            && self.sq[(home + 2) as usize] == 0
            && !self.attacked(home, enemy_white)
            && !self.attacked(home + 1, enemy_white)
            && !self.attacked(home + 2, enemy_white)
        {
            out.push(Mv {
                from: home,
                to: home + 2,
                piece: king,
                captured: 0,
                promo: 0,
                castle: true,
                ep: false,
                double: false,
            });
        }
        if self.castle[qs]
            && self.sq[(home - 4) as usize] == rook
            && self.sq[(home - 1) as usize] == 0
            && self.sq[(home - 2) as usize] == 0
            && self.sq[(home - 3) as usize] == 0
            && !self.attacked(home, enemy_white)
            && !self.attacked(home - 1, enemy_white)
            && !self.attacked(home - 2, enemy_white)
        {
            out.push(Mv {
                from: home,
                to: home - 2,
                piece: king,
                captured: 0,
                promo: 0,
                castle: true,
                ep: false,
                double: false,
            });
        }
    }

    pub fn legal_moves(&self) -> Vec<Mv> {
        let mut v = self.pseudo_moves();
        v.retain(|m| {
            let n = self.make(m);
            !n.in_check(self.white)
        });
        v
    }

    /// Plays a (pseudo-)legal move and returns the new position with all bookkeeping.
    pub fn make(&self, m: &Mv) -> Pos {
        let mut n = self.clone();
        let sign: i8 = if self.white { 1 } else { -1 };
        n.sq[m.from as usize] = 0;
        if m.ep {
            let victim = (m.from >> 3) * 8 + (m.to & 7);
            n.sq[victim as usize] = 0;
        }
        n.sq[m.to as usize] = if m.promo != 0 { m.promo } else { m.piece };
        if m.castle {
            let (rf, rt) = match m.to {
                6 => (7, 5),
                2 => (0, 3),
                62 => (63, 61),
                58 => (56, 59),
                _ => unreachable!(),
            };
            n.sq[rf] = 0;
            n.sq[rt] = sign * R;
        }
        // rights: king moved, rook moved, rook captured (a move from or to a corner while the
        // right is held necessarily involves that rook)
        if m.piece.abs() == 6 {
            if self.white {
                n.castle[WK] = false;
                n.castle[WQ] = false;
            } else {
                n.castle[BK] = false;
                n.castle[BQ] = false;
            }
        }
        for s in [m.from, m.to] {
            match s {
                0 => n.castle[WQ] = false,
                7 => n.castle[WK] = false,
                56 => n.castle[BQ] = false,
                63 => n.castle[BK] = false,
                _ => {}
            }
        }
        n.ep_file = if m.double { Some(m.to & 7) } else { None };
        n.halfmove = if m.piece.abs() == 1 || m.captured != 0 { 0 } else { self.halfmove + 1 };
        if !self.white {
            n.fullmove += 1;
        }
        n.white = !self.white;
        n
    }

    /// Colour mirror: ranks flipped, colours swapped, side to move swapped.
    pub fn mirror(&self) -> Pos {
        let mut n = self.clone();
        for s in 0..64usize {
            let r = s >> 3;
            let f = s & 7;
            n.sq[(7 - r) * 8 + f] = -self.sq[s];
        }
        n.white = !self.white;
        n.castle = [self.castle[BK], self.castle[BQ], self.castle[WK], self.castle[WQ]];
        n
    }

    pub fn material_eval(&self) -> i32 {
        let mut s = 0i32;
        for &pc in self.sq.iter() {
            let v = match pc.abs() {
                1 => 100,
                2 => 300,
                3 => 300,
                4 => 500,
                5 => 900,
                _ => 0,
            };
            s += v * i32::from(pc.signum());
        }
        if self.white {
            s
        } else {
            -s
        }
    }
}

pub fn mirror_uci(m: &str) -> String {
    m.chars()
        .map(|c| match c {
            '1'..='8' => (b'1' + (b'8' - c as u8)) as char,
            o => o,
        })
        .collect()
}

pub fn perft(p: &Pos, depth: u32) -> u64 {
    if depth == 0 {
        return 1;
    }
    let moves = p.legal_moves();
    if depth == 1 {
        return moves.len() as u64;
    }
    moves.iter().map(|m| perft(&p.make(m), depth - 1)).sum()
}

/// Published perft totals (chessprogramming wiki "Perft Results"); NOT taken from the engine.
pub const PERFT_SUITE: &[(&str, &[u64])] = &[
    (
        "rnbqkbnr/pppppppp/8/8/8/8/PPPPPPPP/RNBQKBNR w KQkq - 0 1",
        &[20, 400, 8902, 197_281, 4_865_609],
    ),
    (
        "r3k2r/p1ppqpb1/bn2pnp1/3PN3/1p2P3/2N2Q1p/PPPBBPPP/R3K2R w KQkq - 0 1",
        &[48, 2039, 97_862, 4_085_603],
    ),
    ("8/2p5/3p4/KP5r/1R3p1k/8/4P1P1/8 w - - 0 1", &[14, 191, 2812, 43_238, 674_624]),
    (
        "r3k2r/Pppp1ppp/1b3nbN/nP6/BBP1P3/q4N2/Pp1P2PP/R2Q1RK1 w kq - 0 1",
        &[6, 264, 9467, 422_333],
    ),
    (
        "r2q1rk1/pP1p2pp/Q4n2/bbp1p3/Np6/1B3NBn/pPPP1PPP/R3K2R b KQ - 0 1",
        &[6, 264, 9467, 422_333],
    ),
    (
        "rnbq1k1r/pp1Pbppp/2p5/8/2B5/8/PPP1NnPP/RNBQK2R w KQ - 1 8",
        &[44, 1486, 62_379, 2_103_487],
    ),
    (
        "r4rk1/1pp1qppp/p1np1n2/2b1p1B1/2B1P1b1/P1NP1N2/1PP1QPPP/R4RK1 w - - 0 10",
        &[46, 2079, 89_890, 3_894_594],
    ),
];

/// Oracle self-validation. `deep` checks every listed depth, otherwise all but the last.
pub fn self_check(deep: bool) -> Result<u64, String> {
    let mut nodes = 0;
    let results: Vec<Result<u64, String>> = std::thread::scope(|sc| {
        let hs: Vec<_> = PERFT_SUITE
            .iter()
            .map(|(fen, totals)| {
                sc.spawn(move || {
                    let p = Pos::from_fen(fen)?;
                    let upto = if deep { totals.len() } else { totals.len() - 1 };
                    let mut n = 0;
                    for (i, want) in totals.iter().take(upto).enumerate() {
                        let got = perft(&p, i as u32 + 1);
                        if got != *want {
                            return Err(format!(
                                "oracle perft mismatch on {fen} depth {}: got {got}, literature {want}",
                                i + 1
                            ));
                        }
                        n += got;
                    }
                    // the mirrored position must give the same totals
                    let m = p.mirror();
                    for (i, want) in totals.iter().take(upto.min(3)).enumerate() {
                        let got = perft(&m, i as u32 + 1);
                        if got != *want {
                            return Err(format!("oracle mirror perft mismatch on {fen} depth {}", i + 1));
                        }
                    }
                    Ok(n)
                })
            })
            .collect();
        hs.into_iter().map(|h| h.join().unwrap()).collect()
    });
    for r in results {
        nodes += r?;
    }
    Ok(nodes)
}
