//! Process fan-out for search-level checks. The engine's cache is a process-wide static, so
//! every search check runs in single-threaded worker PROCESSES (the harness re-executes
//! itself); each worker owns its cache, its hook switches and its panic hook.
//!
//! Worker output is line oriented:  V <sig>\t<what>\t<replay-json> | C <name> <n> | S <json> | DONE

use super::report::{Sink, J};
use std::collections::BTreeMap;
use std::io::Write;
use std::path::PathBuf;
use std::process::{Command, Stdio};
use std::sync::Mutex;

pub struct Worker {
    pub shard: usize,
    pub nshards: usize,
    out: Mutex<std::io::BufWriter<std::fs::File>>,
    counters: Mutex<BTreeMap<String, u64>>,
    samples: Mutex<Vec<J>>,
}

impl Worker {
    pub fn from_args(rest: &[String]) -> Option<Worker> {
        let mut shard = None;
        let mut n = None;
        let mut out = None;
        let mut k = 0;
        while k < rest.len() {
            match rest[k].as_str() {
                "--shard" => {
                    let (a, b) = rest.get(k + 1)?.split_once('/')?;
                    shard = a.parse().ok();
                    n = b.parse().ok();
                    k += 1;
                }
                "--out" => {
                    out = rest.get(k + 1).cloned();
                    k += 1;
                }
                _ => {}
            }
            k += 1;
        }
        let f = std::fs::File::create(out?).ok()?;
        Some(Worker {
            shard: shard?,
            nshards: n?,
            out: Mutex::new(std::io::BufWriter::new(f)),
            counters: Mutex::new(BTreeMap::new()),
            samples: Mutex::new(vec![]),
        })
    }
    pub fn mine(&self, index: usize) -> bool {
        index % self.nshards == self.shard
    }
    pub fn violation(&self, sig: &str, what: &str, replay: &J) {
        let mut o = self.out.lock().unwrap();
        let _ = writeln!(o, "V {}\t{}\t{}", sig.replace(['\t', '\n'], " "), what.replace(['\t', '\n'], " "), replay.compact());
        let _ = o.flush();
    }
    pub fn count(&self, name: &str, n: u64) {
        *self.counters.lock().unwrap().entry(name.to_string()).or_insert(0) += n;
    }
    pub fn max(&self, name: &str, n: u64) {
        let mut c = self.counters.lock().unwrap();
        let e = c.entry(format!("max:{name}")).or_insert(0);
        *e = (*e).max(n);
    }
    /// free-text information line (merged by key; the lowest shard's text wins)
    pub fn info(&self, key: &str, text: &str) {
        let mut o = self.out.lock().unwrap();
        let _ = writeln!(o, "I {}\t{}", key, text.replace(['\t', '\n'], " "));
    }
    pub fn sample(&self, j: J) {
        let mut s = self.samples.lock().unwrap();
        if s.len() < 3 {
            s.push(j);
        }
    }
    pub fn done(&self) -> i32 {
        let mut o = self.out.lock().unwrap();
        for (k, v) in self.counters.lock().unwrap().iter() {
            let _ = writeln!(o, "C {k} {v}");
        }
        for s in self.samples.lock().unwrap().iter() {
            let _ = writeln!(o, "S {}", s.compact());
        }
        let _ = writeln!(o, "DONE");
        let _ = o.flush();
        0
    }
}

pub struct Merged {
    pub counters: BTreeMap<String, u64>,
    pub samples: Vec<J>,
    pub infos: BTreeMap<String, String>,
    /// cases (JSON) whose search could not even be stopped: the worker gave up on them
    pub hung: Vec<String>,
}

impl Merged {
    pub fn get(&self, k: &str) -> u64 {
        self.counters.get(k).copied().unwrap_or(0)
    }
}

pub fn nworkers() -> usize {
    std::env::var("VERIF_WORKERS")
        .ok()
        .and_then(|x| x.parse().ok())
        .unwrap_or_else(|| std::thread::available_parallelism().map_or(8, |n| n.get()))
}

/// Runs `verif worker <id> --tier <tier> --shard i/n --out <file>` n times in parallel and
/// merges the outputs into `sink`. A worker that dies or does not finish is a machinery error.
pub fn fan_out(id: &str, tier: &str, sink: &Sink, extra: &[String]) -> Result<Merged, String> {
    let exe = std::env::current_exe().map_err(|e| e.to_string())?;
    let dir: PathBuf = super::report::verif_root().join(".work").join(id);
    let _ = std::fs::remove_dir_all(&dir);
    std::fs::create_dir_all(&dir).map_err(|e| e.to_string())?;
    let n = nworkers();
    let mut kids = vec![];
    for k in 0..n {
        let out = dir.join(format!("shard{k}.out"));
        let err = std::fs::File::create(dir.join(format!("shard{k}.err"))).map_err(|e| e.to_string())?;
        let child = Command::new(&exe)
            .arg("worker")
            .arg(id)
            .arg("--tier")
            .arg(tier)
            .arg("--shard")
            .arg(format!("{k}/{n}"))
            .arg("--out")
            .arg(&out)
            .args(extra)
            .stdin(Stdio::null())
            .stdout(Stdio::null())
            .stderr(Stdio::from(err))
            .spawn()
            .map_err(|e| format!("cannot spawn worker: {e}"))?;
        kids.push((k, child, out));
    }
    let mut merged = Merged {
        counters: BTreeMap::new(),
        samples: vec![],
        infos: BTreeMap::new(),
        hung: vec![],
    };
    let mut errors = vec![];
    for (k, mut child, out) in kids {
        let pid = child.id();
        let status = child.wait().map_err(|e| e.to_string())?;
        let text = std::fs::read_to_string(&out).unwrap_or_default();
        let mut done = false;
        for line in text.lines() {
            if let Some(rest) = line.strip_prefix("V ") {
                let mut it = rest.splitn(3, '\t');
                let sig = it.next().unwrap_or("").to_string();
                let what = it.next().unwrap_or("").to_string();
                let replay = it.next().and_then(|x| J::parse(x).ok()).unwrap_or(J::Null);
                sink.report(sig, what, replay);
            } else if let Some(rest) = line.strip_prefix("C ") {
                if let Some((name, v)) = rest.rsplit_once(' ') {
                    let v: u64 = v.parse().unwrap_or(0);
                    if name.starts_with("max:") {
                        let e = merged.counters.entry(name.to_string()).or_insert(0);
                        *e = (*e).max(v);
                    } else {
                        *merged.counters.entry(name.to_string()).or_insert(0) += v;
                    }
                }
            } else if let Some(rest) = line.strip_prefix("S ") {
                if let Ok(j) = J::parse(rest) {
                    if merged.samples.len() < 4 {
                        merged.samples.push(j);
                    }
                }
            } else if let Some(rest) = line.strip_prefix("I ") {
                if let Some((k2, t)) = rest.split_once('\t') {
                    merged.infos.entry(k2.to_string()).or_insert_with(|| t.to_string());
                }
            } else if line == "DONE" {
                done = true;
            }
        }
        if status.code() == Some(3) {
            // the worker's watchdog gave up: a search ignored its limits AND the stop flag for 20 s
            let side = super::report::verif_root().join(".work").join("overrun").join(format!("{pid}.json"));
            if let Ok(text) = std::fs::read_to_string(&side) {
                let _ = std::fs::remove_file(&side);
                merged.hung.push(text);
                continue;
            }
        }
        if !status.success() || !done {
            let errtxt = std::fs::read_to_string(dir.join(format!("shard{k}.err"))).unwrap_or_default();
            let tail: Vec<&str> = errtxt.lines().rev().take(6).collect();
            errors.push(format!("worker {k} of {id} did not finish (status {status}): {}", tail.into_iter().rev().collect::<Vec<_>>().join(" | ")));
        }
    }
    if id != "C09" && id != "C15" && !merged.hung.is_empty() {
        // C09 judges "the search never answers" and C15 "the parser never returns"; for every
        // other check a worker that had to give up is a machinery error
        errors.push(format!("{} worker(s) of {id} gave up on a search that ignored the stop flag: {}", merged.hung.len(), merged.hung[0]));
    }
    if errors.is_empty() {
        Ok(merged)
    } else {
        Err(errors.join("\n"))
    }
}
