//! Driver for the REAL engine executable (built in /repo with --cfg rce_verif): line I/O with
//! time-outs, stderr capture, optional schedule-point directory (blocking hand-shake).

use std::io::{BufRead, BufReader, Write};
use std::path::{Path, PathBuf};
use std::process::{Child, ChildStdin, Command, Stdio};
use std::sync::mpsc::{channel, Receiver, RecvTimeoutError};
use std::time::{Duration, Instant};

pub fn engine_path() -> PathBuf {
    std::env::var_os("RCE_VERIF_ENGINE")
        .map(PathBuf::from)
        .unwrap_or_else(|| super::report::verif_root().join(".target/repo/release/rust_chess_engine"))
}

pub struct Engine {
    child: Child,
    stdin: Option<ChildStdin>,
    out_rx: Receiver<String>,
    err_rx: Receiver<String>,
    /// every stdout line seen so far, with its arrival time
    pub out: Vec<(Instant, String)>,
    pub err: Vec<String>,
    pub sched: Option<PathBuf>,
    events_read: usize,
    pub events: Vec<String>,
}

thread_local! {
    /// factor by which the monotonic clock of engine processes started from this thread runs fast (<= 1: real clock)
    pub static FAST_CLOCK: std::cell::Cell<u64> = const { std::cell::Cell::new(0) };
}

impl Engine {
    pub fn start(sched: Option<&Path>, hold: &[&str]) -> Result<Engine, String> {
        let exe = engine_path();
        let mut cmd = Command::new(&exe);
        cmd.stdin(Stdio::piped()).stdout(Stdio::piped()).stderr(Stdio::piped());
        cmd.env_remove("RCE_VERIF_SCHED");
        // accelerated monotonic clock for this engine process (LD_PRELOAD shim, see native/fastclock.c)
        let factor = FAST_CLOCK.with(|f| f.get());
        if factor > 1 {
            let shim = super::report::verif_root().join(".target/fastclock.so");
            if !shim.exists() {
                return Err("clock shim .target/fastclock.so is missing".into());
            }
            cmd.env("LD_PRELOAD", shim);
            cmd.env("RCE_VERIF_CLOCK_FACTOR", factor.to_string());
        }
        if let Some(d) = sched {
            let _ = std::fs::remove_dir_all(d);
            std::fs::create_dir_all(d).map_err(|e| e.to_string())?;
            for h in hold {
                std::fs::write(d.join(format!("hold.{h}")), b"").map_err(|e| e.to_string())?;
            }
            cmd.env("RCE_VERIF_SCHED", d);
        }
        let mut child = cmd.spawn().map_err(|e| format!("cannot start {}: {e}", exe.display()))?;
        let stdin = child.stdin.take();
        let (otx, orx) = channel();
        let (etx, erx) = channel();
        let so = child.stdout.take().unwrap();
        let se = child.stderr.take().unwrap();
        std::thread::spawn(move || {
            for l in BufReader::new(so).lines().map_while(Result::ok) {
                if otx.send(l).is_err() {
                    break;
                }
            }
        });
        std::thread::spawn(move || {
            for l in BufReader::new(se).lines().map_while(Result::ok) {
                if etx.send(l).is_err() {
                    break;
                }
            }
        });
        Ok(Engine {
            child,
            stdin,
            out_rx: orx,
            err_rx: erx,
            out: vec![],
            err: vec![],
            sched: sched.map(Path::to_path_buf),
            events_read: 0,
            events: vec![],
        })
    }

    pub fn send(&mut self, line: &str) -> bool {
        match self.stdin.as_mut() {
            Some(s) => s.write_all(format!("{line}\n").as_bytes()).and_then(|_| s.flush()).is_ok(),
            None => false,
        }
    }

    pub fn close_stdin(&mut self) {
        self.stdin = None;
    }

    fn drain_err(&mut self) {
        while let Ok(l) = self.err_rx.try_recv() {
            self.err.push(l);
        }
    }

    /// Waits until a stdout line satisfying `pred` arrives (lines already consumed by an
    /// earlier wait are not looked at again). Returns the line and the time it took.
    pub fn wait_line(&mut self, pred: impl Fn(&str) -> bool, timeout: Duration) -> Option<(String, Duration)> {
        let began = Instant::now();
        loop {
            let left = timeout.checked_sub(began.elapsed())?;
            match self.out_rx.recv_timeout(left.min(Duration::from_millis(50))) {
                Ok(l) => {
                    self.out.push((Instant::now(), l.clone()));
                    if pred(&l) {
                        self.drain_err();
                        return Some((l, began.elapsed()));
                    }
                }
                Err(RecvTimeoutError::Timeout) => {
                    if began.elapsed() >= timeout {
                        self.drain_err();
                        return None;
                    }
                }
                Err(RecvTimeoutError::Disconnected) => {
                    self.drain_err();
                    return None;
                }
            }
        }
    }

    /// Collects whatever arrives on stdout during `d`.
    pub fn settle(&mut self, d: Duration) {
        let began = Instant::now();
        while began.elapsed() < d {
            if let Ok(l) = self.out_rx.recv_timeout(Duration::from_millis(10)) {
                self.out.push((Instant::now(), l));
            }
        }
        self.drain_err();
    }

    pub fn lines(&self) -> Vec<String> {
        self.out.iter().map(|(_, l)| l.clone()).collect()
    }

    pub fn count_lines(&self, prefix: &str) -> usize {
        self.out.iter().filter(|(_, l)| l.starts_with(prefix)).count()
    }

    pub fn alive(&mut self) -> bool {
        matches!(self.child.try_wait(), Ok(None))
    }

    pub fn wait_exit(&mut self, timeout: Duration) -> Option<std::process::ExitStatus> {
        let began = Instant::now();
        loop {
            if let Ok(Some(st)) = self.child.try_wait() {
                self.settle(Duration::from_millis(20));
                return Some(st);
            }
            if began.elapsed() >= timeout {
                return None;
            }
            std::thread::sleep(Duration::from_millis(5));
        }
    }

    pub fn panicked(&mut self) -> Option<String> {
        self.drain_err();
        self.err.iter().find(|l| l.contains("panicked")).cloned()
    }

    // ---- schedule points -------------------------------------------------------------

    fn read_events(&mut self) {
        if let Some(d) = &self.sched {
            if let Ok(t) = std::fs::read_to_string(d.join("events")) {
                let all: Vec<&str> = t.lines().collect();
                // only complete lines (the file is appended with whole lines)
                let complete = if t.ends_with('\n') { all.len() } else { all.len().saturating_sub(1) };
                for l in all.iter().take(complete).skip(self.events_read) {
                    self.events.push((*l).to_string());
                }
                self.events_read = complete;
            }
        }
    }

    /// Waits for the event `<label> <n>` to be recorded by the engine.
    pub fn wait_event(&mut self, label: &str, n: u64, timeout: Duration) -> bool {
        let want = format!("{label} {n}");
        let began = Instant::now();
        loop {
            self.read_events();
            if self.events.iter().any(|e| *e == want) {
                return true;
            }
            if began.elapsed() >= timeout {
                return false;
            }
            // keep stdout flowing while waiting
            if let Ok(l) = self.out_rx.recv_timeout(Duration::from_micros(300)) {
                self.out.push((Instant::now(), l));
            }
        }
    }

    pub fn event_count(&mut self, label: &str) -> u64 {
        self.read_events();
        self.events.iter().filter(|e| e.split(' ').next() == Some(label) && e.split(' ').count() == 2).count() as u64
    }

    /// Releases a thread held at `<label> <n>`.
    pub fn release(&mut self, label: &str, n: u64) {
        if let Some(d) = &self.sched {
            let _ = std::fs::write(d.join(format!("go.{label}.{n}")), b"");
        }
    }

    /// number of OS threads of the engine process (1 = only the input thread is left)
    pub fn thread_count(&self) -> usize {
        std::fs::read_dir(format!("/proc/{}/task", self.child.id())).map(|d| d.count()).unwrap_or(0)
    }

    pub fn kill(&mut self) {
        let _ = self.child.kill();
        let _ = self.child.wait();
    }
}

impl Drop for Engine {
    fn drop(&mut self) {
        self.kill();
        if let Some(d) = &self.sched {
            let _ = std::fs::remove_dir_all(d);
        }
    }
}
