//! C11: reference values of the engine's own look-ahead game, computed on the ORACLE's move
//! generator and material count.
//!
//! The game (from the property statement): root = all legal moves, no draw test, no extension;
//! inner node: half-move clock >= 100 -> 0; position occurred earlier in the game or on the
//! path -> 0; side to move in check -> one extra ply; horizon -> quiescence (stand-pat +
//! legal captures, no mate detection); no legal move -> -32768 + ply (mate) or 0 (stalemate).
//!
//!  R0 = plain negamax, no pruning at all in the full-width part ("the definition");
//!  R1 = textbook fail-soft alpha-beta, nothing else (no PVS, cache, killers or re-search).
//! R1 is validated against R0 wherever R0 fits the node cap.

use super::oracle::{Ident, Mv, Pos};
use super::report::{self, i, obj, s, Coverage, Sink, J};
use super::searchrun::{self, Case, Cut, Limits, Opts};
use super::spos::{self, P9};
use super::workers::{self, Worker};
use super::Args;

pub const INF: i32 = 40_000;
pub const MATE: i32 = -32_768;

pub struct Ref<'a> {
    pub history: &'a [Ident],
    pub nodes: u64,
    pub cap: u64,
    pub over: bool,
}

fn victim_value(m: &Mv) -> i32 {
    match m.captured.abs() {
        1 => 100,
        2 | 3 => 300,
        4 => 500,
        5 => 900,
        _ => 0,
    }
}

impl<'a> Ref<'a> {
    pub fn new(history: &'a [Ident], cap: u64) -> Ref<'a> {
        Ref { history, nodes: 0, cap, over: false }
    }

    fn tick(&mut self) -> bool {
        self.nodes += 1;
        if self.nodes > self.cap {
            self.over = true;
        }
        self.over
    }

    /// capture-only quiescence with stand-pat; fail-soft window (exact when called with the
    /// full window, and a correct bound otherwise)
    pub fn quiesce(&mut self, pos: &Pos, mut alpha: i32, beta: i32) -> i32 {
        if self.tick() {
            return 0;
        }
        let stand = pos.material_eval();
        let mut best = stand;
        if best >= beta {
            return best;
        }
        alpha = alpha.max(best);
        let mut caps: Vec<Mv> = pos.legal_moves().into_iter().filter(|m| m.captured != 0).collect();
        caps.sort_by_key(|m| -victim_value(m));
        for m in caps {
            let v = -self.quiesce(&pos.make(&m), -beta, -alpha);
            if self.over {
                return 0;
            }
            best = best.max(v);
            alpha = alpha.max(v);
            if alpha >= beta {
                break;
            }
        }
        best
    }

    /// Some(value) if the node is decided before any move is looked at
    fn terminal(&self, pos: &Pos, path: &[Ident]) -> Option<i32> {
        if pos.halfmove >= 100 {
            return Some(0);
        }
        let id = pos.ident();
        if self.history.contains(&id) || path.contains(&id) {
            return Some(0);
        }
        None
    }

    /// R0: plain negamax
    pub fn inner0(&mut self, pos: &Pos, depth: u32, ply: i32, path: &mut Vec<Ident>) -> i32 {
        if self.tick() {
            return 0;
        }
        if let Some(v) = self.terminal(pos, path) {
            return v;
        }
        let in_check = pos.in_check(pos.white);
        let d = depth + u32::from(in_check);
        if d == 0 {
            return self.quiesce(pos, -INF, INF);
        }
        let moves = pos.legal_moves();
        if moves.is_empty() {
            return if in_check { MATE + ply } else { 0 };
        }
        let mut best = -INF;
        path.push(pos.ident());
        for m in moves {
            let v = -self.inner0(&pos.make(&m), d - 1, ply + 1, path);
            if self.over {
                break;
            }
            best = best.max(v);
        }
        path.pop();
        best
    }

    /// R1: fail-soft alpha-beta
    pub fn inner1(&mut self, pos: &Pos, depth: u32, ply: i32, mut alpha: i32, beta: i32, path: &mut Vec<Ident>) -> i32 {
        if self.tick() {
            return 0;
        }
        if let Some(v) = self.terminal(pos, path) {
            return v;
        }
        let in_check = pos.in_check(pos.white);
        let d = depth + u32::from(in_check);
        if d == 0 {
            return self.quiesce(pos, alpha, beta);
        }
        let mut moves = pos.legal_moves();
        if moves.is_empty() {
            return if in_check { MATE + ply } else { 0 };
        }
        moves.sort_by_key(|m| -victim_value(m));
        let mut best = -INF;
        path.push(pos.ident());
        for m in moves {
            let v = -self.inner1(&pos.make(&m), d - 1, ply + 1, -beta, -alpha, path);
            if self.over {
                break;
            }
            best = best.max(v);
            alpha = alpha.max(v);
            if alpha >= beta {
                break;
            }
        }
        path.pop();
        best
    }

    /// exact value of every root move (root: no draw test, no extension)
    pub fn root_values(&mut self, root: &Pos, depth: u32, pruned: bool) -> Vec<(String, i32)> {
        let mut out = vec![];
        let mut path = vec![root.ident()];
        for m in root.legal_moves() {
            let child = root.make(&m);
            let v = if pruned { -self.inner1(&child, depth - 1, 1, -INF, INF, &mut path) } else { -self.inner0(&child, depth - 1, 1, &mut path) };
            if self.over {
                break;
            }
            out.push((m.uci(), v));
        }
        out
    }
}

/// Offline generator (deterministic): sparse positions in which a mate score already appears at
/// a shallow depth but a strictly better (shorter) mate exists at a larger depth - the case in
/// which "stop deepening once a mate is seen" changes the fixed-depth result. Uses only the
/// reference search; the list is re-judged against the engine like every other target.
pub fn generate_deepening(count: usize, seed: u64) -> Vec<(String, u8)> {
    use std::sync::atomic::{AtomicU64, Ordering};
    let found: std::sync::Mutex<Vec<(u64, String, u8)>> = std::sync::Mutex::new(vec![]);
    let next = AtomicU64::new(0);
    let limit = 60_000u64;
    std::thread::scope(|sc| {
        for _ in 0..super::explore::threads() {
            sc.spawn(|| loop {
                let k = next.fetch_add(1, Ordering::Relaxed);
                if k >= limit || found.lock().unwrap().len() >= count * 2 {
                    break;
                }
                let mut x = seed ^ k.wrapping_mul(0x9E3779B97F4A7C15) ^ 0x2545F4914F6CDD1D;
                let mut rnd = move |m: u64| -> u64 {
                    x ^= x << 13;
                    x ^= x >> 7;
                    x ^= x << 17;
                    (x >> 11) % m
                };
                let _ = rnd(3);
                let mut p = Pos::empty();
                let wk = rnd(64) as usize;
                let mut bk = rnd(64) as usize;
                while bk == wk || (((bk % 8) as i32 - (wk % 8) as i32).abs() <= 1 && ((bk / 8) as i32 - (wk / 8) as i32).abs() <= 1) {
                    bk = rnd(64) as usize;
                }
                p.sq[wk] = super::oracle::K;
                p.sq[bk] = -super::oracle::K;
                // attacker: queen + one or two more pieces; defender: zero to two pieces/pawns
                let strong: i8 = if rnd(2) == 0 { 1 } else { -1 };
                let mut put = |p: &mut Pos, piece: i8, rnd: &mut dyn FnMut(u64) -> u64| {
                    for _ in 0..20 {
                        let sq = rnd(64) as usize;
                        if p.sq[sq] == 0 && !(piece.abs() == 1 && (sq < 8 || sq >= 56)) {
                            p.sq[sq] = piece;
                            return;
                        }
                    }
                };
                put(&mut p, strong * 5, &mut rnd);
                for _ in 0..(1 + rnd(2)) {
                    let kind = [1i8, 2, 3, 4, 5][rnd(5) as usize];
                    put(&mut p, strong * kind, &mut rnd);
                }
                for _ in 0..rnd(3) {
                    let kind = [1i8, 1, 2, 3, 5][rnd(5) as usize];
                    put(&mut p, -strong * kind, &mut rnd);
                }
                p.white = strong > 0;
                if p.in_check(!p.white) || p.legal_moves().is_empty() {
                    continue;
                }
                let hist: Vec<Ident> = vec![];
                let value = |d: u32| -> Option<i32> {
                    let mut r = Ref::new(&hist, 3_000_000);
                    let v = r.root_values(&p, d, true);
                    if r.over {
                        None
                    } else {
                        v.iter().map(|(_, x)| *x).max()
                    }
                };
                let Some(v3) = value(3) else { continue };
                if v3 < 32_000 {
                    continue;
                }
                for d in [4u32, 5] {
                    if let Some(vd) = value(d) {
                        if vd > v3 {
                            found.lock().unwrap().push((k, p.fen(), d as u8));
                            break;
                        }
                    }
                }
            });
        }
    });
    let mut v = found.into_inner().unwrap();
    v.sort();
    v.into_iter().take(count).map(|(_, f, d)| (f, d)).collect()
}

pub struct Verdict {
    pub judged_by: &'static str,
    pub complaint: Option<String>,
    pub ref_nodes: u64,
    pub machinery: Option<String>,
}

/// Compares one fixed-depth engine search (cache neutralised) with the reference.
pub fn judge(fen: &str, history: &[String], depth: u8, cap0: u64, cap1: u64) -> Option<Verdict> {
    let (board, pos, earlier) = searchrun::open(fen, history).ok()?;
    if pos.legal_moves().is_empty() {
        return None;
    }
    let case = Case {
        fen: fen.to_string(),
        history: history.to_vec(),
        limits: Limits::default(),
        max_depth: Some(depth),
        cut: Cut::ClockNever, elapsed_ms: None,
    };
    let out = searchrun::run(&board, &case, &Opts { clear_cache: true, observe: false, neutral: true });
    let mut r1 = Ref::new(&earlier, cap1);
    let v1 = r1.root_values(&pos, u32::from(depth), true);
    if r1.over {
        return None; // beyond what the reference can afford: left out
    }
    let mut r0 = Ref::new(&earlier, cap0);
    let v0 = r0.root_values(&pos, u32::from(depth), false);
    let (values, by) = if r0.over { (&v1, "R1") } else { (&v0, "R0") };
    let mut v = Verdict {
        judged_by: by,
        complaint: None,
        ref_nodes: r0.nodes.min(cap0) + r1.nodes,
        machinery: None,
    };
    if !r0.over && v0 != v1 {
        v.machinery = Some(format!("reference searches disagree on {fen} depth {depth}: R0 {v0:?} vs R1 {v1:?}"));
        return Some(v);
    }
    let best = values.iter().map(|(_, x)| *x).max().unwrap();
    if let Some(p) = &out.panicked {
        v.complaint = Some(format!("the engine's search panicked: {p}"));
        return Some(v);
    }
    let (Some(score), Some(mv)) = (out.score, out.best.clone()) else {
        v.complaint = Some("the engine's search finished without a result".into());
        return Some(v);
    };
    if i32::from(score) != best {
        v.complaint = Some(format!("root score {score} but the exact value of the look-ahead game is {best} (reference {by}; root moves {values:?})"));
        return Some(v);
    }
    match values.iter().find(|(m, _)| *m == mv) {
        None => v.complaint = Some(format!("chosen move {mv} is not a legal root move")),
        Some((_, x)) if *x != best => v.complaint = Some(format!("chosen move {mv} is worth {x} in the look-ahead game, the root value is {best}")),
        _ => {}
    }
    Some(v)
}

pub struct Target {
    pub name: String,
    pub fen: String,
    pub history: Vec<String>,
    pub max_depth: u8,
}

/// tactical positions around promotions with capture (queen sacrifices that are refuted or
/// justified by a capture-promotion, pawns on the seventh next to capturable pieces)
const TACTICS: &[&str] = &[
    "r1b3k1/1P3ppp/8/8/8/8/5PPP/3Q2K1 w - - 0 1",
    "2r3k1/1P1P1ppp/8/8/8/8/5PPP/4Q1K1 w - - 0 1",
    "3r2k1/2P2ppp/8/8/8/8/5PPP/3R2K1 w - - 0 1",
    "1r4k1/P4ppp/8/8/8/8/5PPP/1Q4K1 w - - 0 1",
    "6k1/5ppp/8/8/8/8/1p3PPP/RN4K1 b - - 0 1",
    "2n3k1/1P3ppp/8/8/8/6p1/5PPP/2R3K1 w - - 0 1",
    "nn4k1/1P3ppp/8/8/8/8/5PPP/Q5K1 w - - 0 1",
    "1b1r2k1/2P2ppp/8/8/8/8/5PPP/1Q1R2K1 w - - 0 1",
    "4k3/8/8/8/8/8/1p1p4/R1B1K3 b - - 0 1",
    "r3k3/1P6/8/8/8/8/6p1/4K2R w Kq - 0 1",
    "3q2k1/2P2ppp/8/8/8/8/5PPP/3Q2K1 w - - 0 1",
    "1q4k1/P1P2ppp/8/8/8/8/5PPP/R5K1 w - - 0 1",
];

/// En-passant families, ENUMERATED (no file, no sampling): small configurations in which the
/// en-passant capture is the move that matters.
/// (A) shield/pin: White pawn on its fifth rank, Black pawn beside it that has just made its
///     double step, both kings and one black slider on every square; kept when the en-passant
///     capture is pseudo-legal but NOT legal (it would expose the king along a rank, file or
///     diagonal, or does not answer a check).
/// (B) evasion: the black pawn's double step gives check to the white king and capturing it en
///     passant is a legal answer; the position itself and its parent (before the double step) are
///     targets, so the check-evasion code of interior nodes is exercised too.
/// Both colours (mirror). `stride` thins the list deterministically.
pub fn ep_family(thorough: bool) -> Vec<Target> {
    use super::oracle::K;
    let mut out: Vec<Target> = vec![];
    let mut n = 0usize;
    let stride_a = if thorough { 1 } else { 6 };
    let stride_b = if thorough { 1 } else { 10 };
    let mut push = |out: &mut Vec<Target>, q: &Pos, name: &str, d: u8| {
        for r in [q.clone(), q.mirror()] {
            out.push(Target { name: format!("{name} {}", r.fen()), fen: r.fen(), history: vec![], max_depth: d });
        }
    };
    // (A)
    for wf in [1usize, 4, 6] {
        for side in [-1i32, 1] {
            let bf = (wf as i32 + side) as usize;
            for bk in [63usize, 56] {
                for wk in 0..64usize {
                    for ssq in 0..64usize {
                        for kind in [3i8, 4, 5] {
                            let wp = 4 * 8 + wf;
                            let bp = 4 * 8 + bf;
                            let sqs = [wp, bp, bk, wk, ssq];
                            if (0..5).any(|a| (a + 1..5).any(|b| sqs[a] == sqs[b])) {
                                continue;
                            }
                            // the squares behind the black pawn must be empty (it came from its home square)
                            if [5 * 8 + bf, 6 * 8 + bf].iter().any(|x| sqs.contains(x)) {
                                continue;
                            }
                            let mut p = Pos::empty();
                            p.sq[wp] = 1;
                            p.sq[bp] = -1;
                            p.sq[bk] = -K;
                            p.sq[wk] = K;
                            p.sq[ssq] = -kind;
                            p.white = true;
                            p.ep_file = Some(bf as u8);
                            p.halfmove = 0;
                            p.fullmove = 20;
                            if p.in_check(false) {
                                continue;
                            }
                            let kings_adjacent = ((wk % 8) as i32 - (bk % 8) as i32).abs() <= 1 && ((wk / 8) as i32 - (bk / 8) as i32).abs() <= 1;
                            if kings_adjacent {
                                continue;
                            }
                            let legal = p.legal_moves();
                            if legal.is_empty() {
                                continue;
                            }
                            let pseudo_ep = p.pseudo_moves().iter().any(|m| m.ep);
                            let legal_ep = legal.iter().any(|m| m.ep);
                            if pseudo_ep && !legal_ep {
                                n += 1;
                                if n % stride_a == 0 {
                                    push(&mut out, &p, "ep-shield", 2);
                                }
                            }
                        }
                    }
                }
            }
        }
    }
    // (B)
    let mut m = 0usize;
    for bf in 0..8usize {
        for pside in [-1i32, 1] {
            let wf = bf as i32 + pside;
            if !(0..8).contains(&wf) {
                continue;
            }
            let wf = wf as usize;
            for kside in [-1i32, 1] {
                let kf = bf as i32 + kside;
                if !(0..8).contains(&kf) {
                    continue;
                }
                let wk = 3 * 8 + kf as usize;
                for bk in [63usize, 56, 60, 7, 0] {
                    for xsq in 0..64usize {
                        for kind in [0i8, 2, 3, 4, 5] {
                            let wp = 4 * 8 + wf;
                            let bp = 4 * 8 + bf;
                            let mut sqs = vec![wp, bp, bk, wk];
                            if kind != 0 {
                                sqs.push(xsq);
                            } else if xsq != 0 {
                                continue;
                            }
                            if (0..sqs.len()).any(|a| (a + 1..sqs.len()).any(|b| sqs[a] == sqs[b])) {
                                continue;
                            }
                            if [5 * 8 + bf, 6 * 8 + bf].iter().any(|x| sqs.contains(x)) {
                                continue;
                            }
                            let mut q = Pos::empty();
                            q.sq[wp] = 1;
                            q.sq[bp] = -1;
                            q.sq[bk] = -K;
                            q.sq[wk] = K;
                            if kind != 0 {
                                q.sq[xsq] = -kind;
                            }
                            q.white = true;
                            q.ep_file = Some(bf as u8);
                            q.halfmove = 0;
                            q.fullmove = 20;
                            let kings_adjacent = ((wk % 8) as i32 - (bk % 8) as i32).abs() <= 1 && ((wk / 8) as i32 - (bk / 8) as i32).abs() <= 1;
                            if kings_adjacent || q.in_check(false) || !q.in_check(true) {
                                continue;
                            }
                            if !q.legal_moves().iter().any(|mv| mv.ep) {
                                continue;
                            }
                            // the parent: the black pawn still on its home square, Black to move
                            let mut par = q.clone();
                            par.sq[bp] = 0;
                            par.sq[6 * 8 + bf] = -1;
                            par.white = false;
                            par.ep_file = None;
                            if par.in_check(true) || !par.legal_moves().iter().any(|mv| mv.double && mv.to as usize == bp) {
                                continue;
                            }
                            m += 1;
                            if m % stride_b == 0 {
                                push(&mut out, &q, "ep-evasion", 2);
                                push(&mut out, &par, "ep-evasion-parent", 2);
                            }
                        }
                    }
                }
            }
        }
    }
    out
}

pub fn targets(tier: &str) -> Vec<Target> {
    let thorough = tier == "thorough";
    let mut v = vec![];
    for (k, p) in P9.iter().enumerate() {
        let dense = matches!(p.name, "kiwipete" | "black-to-move" | "perft4" | "perft5" | "perft6" | "bench03" | "bench-ep" | "kiwipete+kingwalk" | "hanging-queen");
        let d = match (thorough, dense) {
            (false, true) => 3,
            (false, false) => 4,
            (true, true) => 4,
            (true, false) => 5,
        };
        v.push(Target { name: p.name.to_string(), fen: p.fen.to_string(), history: spos::hist(p), max_depth: d });
        // the positions one ply away (with the root in their game history), and two plies in thorough
        let expand = thorough || k % 2 == 0;
        if !expand {
            continue;
        }
        let Ok((_, pos, _)) = searchrun::open(p.fen, &spos::hist(p)) else { continue };
        for m in pos.legal_moves() {
            let mut h = spos::hist(p);
            h.push(m.uci());
            let cd = if dense { d.saturating_sub(1).max(1) } else { d.saturating_sub(1).max(2) };
            v.push(Target { name: format!("{}+{}", p.name, m.uci()), fen: p.fen.to_string(), history: h.clone(), max_depth: cd });
            if thorough && !dense {
                let c = pos.make(&m);
                for (n, m2) in c.legal_moves().into_iter().enumerate() {
                    if n % 4 != 0 {
                        continue;
                    }
                    let mut h2 = h.clone();
                    h2.push(m2.uci());
                    v.push(Target { name: format!("{}+{}+{}", p.name, m.uci(), m2.uci()), fen: p.fen.to_string(), history: h2, max_depth: 2 });
                }
            }
        }
    }
    // the tactical family and its colour mirrors, with all positions one ply away
    for f in TACTICS {
        let Ok(p) = super::oracle::Pos::from_fen(f) else { continue };
        for q in [p.clone(), p.mirror()] {
            let fen = q.fen();
            v.push(Target { name: format!("tactic {fen}"), fen: fen.clone(), history: vec![], max_depth: if thorough { 4 } else { 3 } });
            for m in q.legal_moves() {
                v.push(Target { name: format!("tactic {fen}+{}", m.uci()), fen: fen.clone(), history: vec![m.uci()], max_depth: if thorough { 3 } else { 2 } });
            }
        }
    }
    // positions with more than 128 pseudo-legal moves whose decisive moves are generated last,
    // and the minor-piece mates (anything that drops, truncates or mis-scores rare moves)
    for (file, maxd, every) in [(include_str!("mate_family_heavy.txt"), 2u8, 1usize), (include_str!("mate_family_minor.txt"), if thorough { 5 } else { 4 }, if thorough { 1 } else { 4 })] {
        for (k, line) in file.lines().enumerate() {
            if k % every != 0 {
                continue;
            }
            if let Some((_, fen)) = line.split_once('\t') {
                v.push(Target { name: format!("family {fen}"), fen: fen.to_string(), history: vec![], max_depth: maxd });
            }
        }
    }
    v.extend(ep_family(thorough));
    // fifty-move frontier: material-imbalanced endings with the half-move clock at 94..99 and
    // either side to move - the rule draw arrives inside the search, at every distance from the
    // horizon, for the side that is behind as well as for the side that is ahead
    for base in [
        "7k/p7/8/8/8/8/6R1/K7",
        "8/8/4k3/8/8/3K4/4P3/R7",
        "8/3p4/4k3/8/8/3K4/8/R7",
        "4k3/8/8/8/8/8/8/Q3K3",
        "8/5k2/8/8/8/2n5/8/K6R",
        "6k1/5b2/8/8/8/8/1Q6/K7",
        "8/8/8/3k4/8/8/1r6/K2R4",
    ] {
        for stm in ["w", "b"] {
            for clock in 94..=99u32 {
                let fen = format!("{base} {stm} - - {clock} 80");
                let Ok(p) = Pos::from_fen(&fen) else { continue };
                if p.in_check(!p.white) || p.legal_moves().is_empty() {
                    continue;
                }
                v.push(Target { name: format!("fifty {fen}"), fen, history: vec![], max_depth: if thorough { 5 } else { 4 } });
            }
        }
    }
    // positions where a mate score appears early but a shorter mate exists deeper (see generate_deepening)
    for line in include_str!("deepening_family.txt").lines() {
        if let Some((d, fen)) = line.split_once('\t') {
            let d: u8 = d.parse().unwrap_or(4);
            v.push(Target { name: format!("deepening {fen}"), fen: fen.to_string(), history: vec![], max_depth: d });
        }
    }
    // every explorer seed (the rare-feature positions, the bench positions, the long games)
    for (k, sd) in super::seeds::all().into_iter().enumerate() {
        let mirror = sd.name.ends_with("~mirror");
        if mirror && !thorough {
            continue;
        }
        if sd.prefix.len() > 600 && !thorough {
            continue;
        }
        let d = match (sd.class, thorough) {
            (super::seeds::Class::Feature, false) => 3,
            (super::seeds::Class::Feature, true) => 4,
            (_, false) => 2,
            (_, true) => 3,
        };
        v.push(Target { name: format!("seed {}", sd.name), fen: sd.fen.clone(), history: sd.prefix.clone(), max_depth: d });
        if sd.class == super::seeds::Class::Feature && sd.prefix.len() < 50 && (thorough || k % 3 == 0) {
            let Ok((_, pos, _, _)) = super::explore::open_seed(&sd) else { continue };
            for m in pos.legal_moves() {
                let mut h = sd.prefix.clone();
                h.push(m.uci());
                v.push(Target { name: format!("seed {}+{}", sd.name, m.uci()), fen: sd.fen.clone(), history: h, max_depth: 2 });
            }
        }
    }
    v
}

pub fn worker(args: &Args, w: &Worker) -> i32 {
    searchrun::quiet_panics();
    let thorough = args.tier == "thorough";
    let (cap0, cap1) = if thorough { (20_000_000, 150_000_000) } else { (1_500_000, 12_000_000) };
    let ts = targets(&args.tier);
    let mut idx = 0;
    for t in &ts {
        for d in 1..=t.max_depth {
            idx += 1;
            if !w.mine(idx) {
                continue;
            }
            let Some(v) = judge(&t.fen, &t.history, d, cap0, cap1) else {
                w.count("pairs_beyond_reference_budget_or_without_moves", 1);
                continue;
            };
            if let Some(m) = v.machinery {
                w.info("machinery", &m);
                continue;
            }
            w.count("pairs_judged", 1);
            w.count(&format!("pairs_judged_by_{}", v.judged_by), 1);
            w.count("reference_nodes", v.ref_nodes);
            w.max("deepest_depth", u64::from(d));
            if idx % 97 == 0 {
                w.sample(obj(vec![("fen", s(t.fen.clone())), ("history", report::arr_s(&t.history)), ("depth", i(d)), ("judged_by", s(v.judged_by))]));
            }
            if let Some(c) = v.complaint {
                w.violation(
                    &format!("{}|{}|d{d}", t.fen, t.history.join(",")),
                    &format!("{} [{}] depth {d}: {c}", t.fen, t.history.join(" ")),
                    &obj(vec![("kind", s("refsearch")), ("fen", s(t.fen.clone())), ("history", report::arr_s(&t.history)), ("depth", i(d))]),
                );
            }
        }
    }
    w.done()
}

pub fn run(args: &Args) -> i32 {
    let sink = Sink::new("C11", &args.tier);
    let merged = match workers::fan_out("C11", &args.tier, &sink, &[]) {
        Ok(m) => m,
        Err(e) => {
            eprintln!("MACHINERY: {e}");
            return 2;
        }
    };
    if let Some(m) = merged.infos.get("machinery") {
        eprintln!("MACHINERY: {m}");
        return 2;
    }
    let judged = merged.get("pairs_judged");
    let mut extra: Vec<(String, J)> = merged.counters.iter().map(|(k, v)| (k.replace(':', "_"), i(*v))).collect();
    extra.push(("rule".into(), s("states = (position, depth) pairs whose engine result (cache neutralised) was compared with the reference value of the look-ahead game; transitions = reference search nodes; R1 (fail-soft alpha-beta) is checked equal to R0 (plain negamax) wherever R0 fits its node cap")));
    let cov = Coverage {
        states: judged.max(1),
        transitions: merged.get("reference_nodes").max(1),
        traces: judged,
        samples: if merged.samples.is_empty() { vec![s("none")] } else { merged.samples.clone() },
        exhaustive: None,
        extra,
        assumptions: vec![
            "the cache is neutralised by the tt_neutralise hook (emptied before every probe), so every iteration is a pure tree search".into(),
            "the reference plays on the oracle's move generator and material count; positions whose reference search exceeds the node cap are left out".into(),
        ],
    };
    report::finish(&sink, cov)
}

pub fn replay(doc: &J) -> i32 {
    let Some(r) = doc.get("replay") else { return 2 };
    let fen = r.get("fen").and_then(|x| x.str()).unwrap_or("").to_string();
    let history = r.get("history").map(|x| x.str_list()).unwrap_or_default();
    let depth = r.get("depth").and_then(|x| x.int()).unwrap_or(1) as u8;
    searchrun::quiet_panics();
    let a = judge(&fen, &history, depth, 50_000_000, 200_000_000);
    let b = judge(&fen, &history, depth, 50_000_000, 200_000_000);
    match (a, b) {
        (Some(a), Some(b)) => {
            if a.machinery.is_some() || a.complaint != b.complaint {
                eprintln!("MACHINERY: {:?} / not reproducible", a.machinery);
                return 2;
            }
            match a.complaint {
                Some(c) => {
                    println!("violation reproduced ({}): {c}", a.judged_by);
                    1
                }
                None => {
                    println!("no violation");
                    0
                }
            }
        }
        _ => 2,
    }
}
