//! C10: stateless exploration of the interleavings of a GUI command script with the search
//! thread's labelled steps, on the REAL executable. Every schedule is executed from a fresh
//! process; the controller decides every ordering through the blocking schedule points
//! (`RCE_VERIF_SCHED`), so the microsecond windows are forced open deterministically.
//!
//! Threads: the input thread (blocks on stdin between commands; a command is "done" when the
//! loop is back at `uci.wait_input`) and the search thread of each `go`, held at
//! search.enter / armed / iter_done(1st) / before_bestmove / after_bestmove / exit.

use super::report::{self, arr_s, i, obj, s, Coverage, Sink, J};
use super::session::Model;
use super::uciproc::Engine;
use super::Args;
use std::sync::atomic::{AtomicU64, Ordering};
use std::sync::Mutex;
use std::time::Duration;

const POINTS: [&str; 6] = ["search.enter", "search.armed", "search.iter_done", "search.before_bestmove", "search.after_bestmove", "search.exit"];

#[derive(Clone, Copy, Debug, PartialEq, Eq)]
enum SearchState {
    None,
    /// held at POINTS[k], arrival number n of that label
    Held(usize, u64),
    /// running without a hold ahead of it that it can reach on its own (unbounded, not stopped)
    Free,
    Gone,
}

#[derive(Clone, Copy, Debug, PartialEq, Eq)]
enum Action {
    ReleaseSearch,
    SendNext,
}

#[derive(Debug, Clone, Default)]
pub struct Observation {
    pub trace: Vec<String>,
    pub bestmoves: Vec<String>,
    pub readyoks: usize,
    pub errors: Vec<String>,
    pub complaints: Vec<String>,
    pub choice_points: Vec<usize>, // number of enabled actions at each step
    pub choices: Vec<usize>,
    pub machinery: Option<String>,
}

struct Run<'a> {
    e: Engine,
    script: &'a [String],
    next_cmd: usize,
    search: SearchState,
    searches_started: u64,
    bounded: bool,
    stop_sent: bool,
    bestmove_printed: bool,
    iter_base: u64,
    input_blocked_in_join: bool,
    wait_inputs: u64,
    model: Model,
    roots: Vec<super::oracle::Pos>,
    obs: Observation,
}

const ARRIVE: Duration = Duration::from_secs(10);

impl<'a> Run<'a> {
    fn enabled(&self) -> Vec<Action> {
        let mut v = vec![];
        match self.search {
            // an unbounded search that has not been stopped stays at its first iteration
            // boundary: letting it run free would make everything after it a race. A stop
            // that arrives "in the middle of the search" is the stop sent in this state (the
            // flag is only read at polls, and the next poll sees it either way).
            SearchState::Held(2, _) if !self.bounded && !self.stop_sent => {}
            SearchState::Held(..) => v.push(Action::ReleaseSearch),
            _ => {}
        }
        if !self.input_blocked_in_join && self.next_cmd < self.script.len() {
            let cmd = &self.script[self.next_cmd];
            let is_go = cmd.starts_with("go");
            // GUI protocol: a new go only after the previous search's bestmove has been printed
            let ok = !is_go || self.searches_started == 0 || self.bestmove_printed;
            if ok {
                v.push(Action::SendNext);
            }
        }
        v
    }

    /// Waits for the search thread to arrive at its next hold point (or to be gone).
    fn await_search(&mut self, after_point: Option<usize>) {
        // which labels can it arrive at next?
        let candidates: Vec<usize> = match after_point {
            None => vec![0],
            Some(2) => vec![3],       // after the first iter_done the hold on iter_done is lifted
            Some(1) => vec![2, 3],    // armed -> first iteration done, or straight to bestmove when cut
            Some(5) => vec![],
            Some(k) => vec![k + 1],
        };
        if candidates.is_empty() {
            // released from search.exit: "gone" means the OS thread has really exited (this is
            // what JoinHandle::is_finished reports); wait for that so the state is well defined
            let began = std::time::Instant::now();
            // (when the input thread is joining it, the join itself is that synchronisation)
            while !self.input_blocked_in_join && self.e.thread_count() > 1 {
                if began.elapsed() > ARRIVE {
                    self.obs.machinery = Some("search thread did not exit after search.exit was released".into());
                    break;
                }
                std::thread::sleep(Duration::from_micros(200));
            }
            self.search = SearchState::Gone;
            return;
        }
        let began = std::time::Instant::now();
        loop {
            for &k in &candidates {
                let n = self.e.event_count(POINTS[k]);
                let expected = if k == 2 { self.iter_base + 1 } else { self.searches_started };
                if n >= expected && !self.already_released(k, n) {
                    self.search = SearchState::Held(k, n);
                    if k == 4 {
                        self.bestmove_printed = true;
                    }
                    return;
                }
            }
            let limit = if self.stop_sent { Duration::from_secs(5) } else { ARRIVE };
            if began.elapsed() > limit {
                if self.stop_sent || self.bounded {
                    self.obs.complaints.push(format!(
                        "search thread did not reach {} within {} s although {}",
                        candidates.iter().map(|k| POINTS[*k]).collect::<Vec<_>>().join(" / "),
                        limit.as_secs(),
                        if self.stop_sent { "stop had been processed" } else { "the search is bounded" }
                    ));
                }
                self.search = SearchState::Free;
                return;
            }
            self.e.settle(Duration::from_micros(500));
        }
    }

    fn already_released(&self, k: usize, n: u64) -> bool {
        self.obs.trace.iter().any(|t| *t == format!("release {} {n}", POINTS[k]))
    }

    fn release(&mut self) {
        let SearchState::Held(k, n) = self.search else { return };
        if k == 2 {
            // lift the hold on later iterations before letting the thread go
            if let Some(d) = &self.e.sched {
                let _ = std::fs::remove_file(d.join("hold.search.iter_done"));
            }
        }
        self.obs.trace.push(format!("release {} {n}", POINTS[k]));
        self.e.release(POINTS[k], n);
        self.await_search(Some(k));
    }

    fn send_next(&mut self) {
        let cmd = self.script[self.next_cmd].clone();
        self.next_cmd += 1;
        self.obs.trace.push(format!("send {cmd}"));
        let is_go = cmd.starts_with("go");
        if is_go {
            if let Some(d) = &self.e.sched {
                let _ = std::fs::write(d.join("hold.search.iter_done"), b"");
            }
            // iterations already reported by earlier searches (they are past their bestmove)
            self.iter_base = self.e.event_count("search.iter_done");
        }
        let joins_before = self.e.event_count("uci.go_join");
        if !self.e.send(&cmd) {
            self.obs.complaints.push(format!("engine no longer accepts input at '{cmd}'"));
            return;
        }
        // the command is done when the loop is back at uci.wait_input - unless the go handler
        // is waiting for the previous search thread (notify-only point uci.go_join)
        let began = std::time::Instant::now();
        loop {
            if self.e.event_count("uci.wait_input") > self.wait_inputs {
                self.wait_inputs += 1;
                break;
            }
            if is_go && self.e.event_count("uci.go_join") > joins_before {
                self.input_blocked_in_join = true;
                self.obs.trace.push("input thread joins the previous search thread".into());
                break;
            }
            if began.elapsed() > ARRIVE {
                if !self.e.alive() {
                    self.obs.complaints.push(format!("engine died while processing '{cmd}'"));
                } else {
                    self.obs.machinery = Some(format!("input thread did not finish '{cmd}' within {} s (search state {:?})", ARRIVE.as_secs(), self.search));
                }
                return;
            }
            self.e.settle(Duration::from_micros(500));
        }
        if cmd == "isready" {
            // the answer is printed before the loop returns to uci.wait_input; allow 2 s anyway
            let want = self.script[..self.next_cmd].iter().filter(|c| *c == "isready").count();
            let began = std::time::Instant::now();
            loop {
                if self.e.count_lines("readyok") >= want {
                    break;
                }
                if began.elapsed() > Duration::from_secs(5) {
                    self.obs.complaints.push("isready was not answered with readyok within 5 s".into());
                    break;
                }
                self.e.settle(Duration::from_millis(1));
            }
        }
        if cmd == "stop" {
            self.stop_sent = true;
        }
        if is_go && !self.input_blocked_in_join {
            self.after_go_accepted(&cmd);
        }
        if !is_go {
            self.model.apply(&cmd);
        }
    }

    fn after_go_accepted(&mut self, cmd: &str) {
        // was a search thread really started?
        let spawned = self.e.event_count("uci.go_spawned");
        if spawned > self.searches_started {
            self.searches_started = spawned;
            self.roots.push(self.model.pos.clone());
            self.bounded = super::session::go_bounded(cmd);
            self.stop_sent = false;
            self.bestmove_printed = false;
            self.search = SearchState::None;
            self.await_search(None);
        } else {
            self.obs.complaints.push(format!("'{cmd}' did not start a search (the go was dropped)"));
        }
    }

    fn step(&mut self, choice: usize) -> bool {
        let en = self.enabled();
        if en.is_empty() {
            return false;
        }
        if choice >= en.len() {
            self.obs.machinery = Some(format!("replayed choice {choice} out of range ({} enabled)", en.len()));
            return false;
        }
        self.obs.choice_points.push(en.len());
        self.obs.choices.push(choice);
        match en[choice] {
            Action::ReleaseSearch => {
                self.release();
                if self.input_blocked_in_join && self.search == SearchState::Gone {
                    // the join can complete now: the go handler goes on to spawn the new search
                    let began = std::time::Instant::now();
                    while self.e.event_count("uci.wait_input") <= self.wait_inputs {
                        if began.elapsed() > ARRIVE {
                            self.obs.machinery = Some("go handler did not return after the old search thread exited".into());
                            return false;
                        }
                        self.e.settle(Duration::from_micros(500));
                    }
                    self.wait_inputs += 1;
                    self.input_blocked_in_join = false;
                    let cmd = self.script[self.next_cmd - 1].clone();
                    self.after_go_accepted(&cmd);
                }
            }
            Action::SendNext => self.send_next(),
        }
        self.obs.machinery.is_none()
    }
}

/// Executes one schedule: replays `prefix`, then always takes choice 0.
pub fn execute(script: &[String], prefix: &[usize], id: u64) -> Observation {
    let dir = report::verif_root().join(".work").join("sched").join(format!("{}_{id}", std::process::id()));
    let e = match Engine::start(Some(&dir), &POINTS) {
        Ok(e) => e,
        Err(m) => {
            return Observation {
                machinery: Some(m),
                ..Default::default()
            }
        }
    };
    let mut r = Run {
        e,
        script,
        next_cmd: 0,
        search: SearchState::None,
        searches_started: 0,
        bounded: false,
        stop_sent: false,
        bestmove_printed: false,
        iter_base: 0,
        input_blocked_in_join: false,
        wait_inputs: 0,
        model: Model::new(),
        roots: vec![],
        obs: Observation::default(),
    };
    // the loop announces itself once before the first command
    if !r.e.wait_event("uci.wait_input", 1, ARRIVE) {
        r.obs.machinery = Some("engine did not reach its command loop".into());
        return r.obs;
    }
    r.wait_inputs = 1;
    let mut k = 0;
    loop {
        let choice = prefix.get(k).copied().unwrap_or(0);
        if !r.step(choice) {
            break;
        }
        k += 1;
        if k > 200 {
            r.obs.machinery = Some("schedule longer than 200 steps".into());
            break;
        }
    }
    if r.obs.machinery.is_none() {
        // end of schedule: a free-running unbounded search whose stop was lost never answers
        if r.search == SearchState::Free && r.stop_sent {
            // already complained in await_search
        }
        r.e.settle(Duration::from_millis(30));
        let lines = r.e.lines();
        r.obs.bestmoves = lines.iter().filter(|l| l.starts_with("bestmove")).cloned().collect();
        r.obs.readyoks = lines.iter().filter(|l| *l == "readyok").count();
        r.obs.errors = r.e.err.iter().filter(|l| l.contains("Failed to") || l.contains("panicked")).cloned().collect();
        let gos = script.iter().filter(|c| c.starts_with("go")).count();
        let readys = script.iter().filter(|c| *c == "isready").count();
        if r.next_cmd == script.len() {
            if r.obs.bestmoves.len() != gos {
                r.obs.complaints.push(format!("{} go commands but {} bestmove lines", gos, r.obs.bestmoves.len()));
            }
            if r.obs.readyoks != readys {
                r.obs.complaints.push(format!("{} isready but {} readyok", readys, r.obs.readyoks));
            }
        } else {
            r.obs.complaints.push(format!("script stuck before '{}' (no action enabled; search {:?})", script[r.next_cmd], r.search));
        }
        for (n, bm) in r.obs.bestmoves.iter().enumerate() {
            if let Some(root) = r.roots.get(n) {
                let mv = bm.split_whitespace().nth(1).unwrap_or("");
                if !super::searchrun::legal_uci(root).iter().any(|m| m == mv) {
                    r.obs.complaints.push(format!("'{bm}' is not legal in the position of go #{} ({})", n + 1, root.fen()));
                }
            }
        }
        for e in &r.obs.errors {
            r.obs.complaints.push(format!("engine reported: {e}"));
        }
        r.e.send("quit");
        if r.e.wait_exit(Duration::from_secs(5)).is_none() {
            r.obs.complaints.push("engine did not exit on quit".into());
        }
    }
    r.obs
}

pub fn scripts() -> Vec<(&'static str, Vec<String>)> {
    let v = |x: &[&str]| x.iter().map(|t| t.to_string()).collect::<Vec<_>>();
    vec![
        ("go-infinite-stop", v(&["go infinite", "stop"])),
        ("go-depth2-stop", v(&["go depth 2", "stop"])),
        ("go-stop-go-stop", v(&["go infinite", "stop", "go infinite", "stop"])),
        ("go-go", v(&["go depth 1", "go depth 1"])),
        ("go-position-isready-stop", v(&["go infinite", "position startpos moves e2e4", "isready", "stop"])),
        ("go-isready-stop-position-go", v(&["go infinite", "isready", "stop", "position startpos moves e2e4", "go depth 1"])),
        ("stop-first", v(&["stop", "go depth 1", "isready"])),
        ("go-stop-go-bounded", v(&["go depth 1", "stop", "go depth 1"])),
        ("go-ucinewgame-stop", v(&["go infinite", "ucinewgame", "stop", "isready"])),
        ("double-stop", v(&["go infinite", "stop", "stop", "go depth 1"])),
    ]
}

/// All choice sequences with at most `bound` deviations (a deviation = a choice other than
/// the default 0), level by level: each executed schedule reports its choice points, every
/// alternative at a point beyond its forced prefix becomes a schedule of the next level.
fn explore(script: &[String], bound: usize, counter: &AtomicU64, out: &Mutex<Vec<(Vec<usize>, Observation)>>) {
    let mut level: Vec<Vec<usize>> = vec![vec![]];
    let mut deviations = 0;
    while !level.is_empty() {
        let next: Mutex<Vec<Vec<usize>>> = Mutex::new(vec![]);
        let idx = std::sync::atomic::AtomicUsize::new(0);
        std::thread::scope(|sc| {
            for _ in 0..12usize.min(level.len()) {
                sc.spawn(|| loop {
                    let k = idx.fetch_add(1, Ordering::Relaxed);
                    if k >= level.len() {
                        break;
                    }
                    let prefix = &level[k];
                    let id = counter.fetch_add(1, Ordering::Relaxed);
                    let obs = execute(script, prefix, id);
                    let points = obs.choice_points.clone();
                    let choices = obs.choices.clone();
                    let failed = obs.machinery.is_some();
                    out.lock().unwrap().push((choices.clone(), obs));
                    if failed || deviations >= bound {
                        continue;
                    }
                    let mut kids = vec![];
                    for p in prefix.len()..points.len() {
                        for alt in 1..points[p] {
                            let mut c = choices[..p].to_vec();
                            c.push(alt);
                            kids.push(c);
                        }
                    }
                    next.lock().unwrap().extend(kids);
                });
            }
        });
        level = next.into_inner().unwrap();
        level.sort();
        deviations += 1;
    }
}

pub fn run(args: &Args) -> i32 {
    let thorough = args.tier == "thorough";
    let sink = Sink::new("C10", &args.tier);
    let bound = if thorough { usize::MAX } else { 2 };
    let counter = AtomicU64::new(0);
    let mut total = 0u64;
    let mut steps = 0u64;
    let mut samples = vec![];
    let mut per_script = vec![];
    let mut outcomes = std::collections::BTreeSet::new();
    let mut replays_checked = 0u64;
    for (name, script) in scripts() {
        let out: Mutex<Vec<(Vec<usize>, Observation)>> = Mutex::new(vec![]);
        explore(&script, bound, &counter, &out);
        let runs = out.into_inner().unwrap();
        per_script.push((name.to_string(), runs.len() as u64));
        for (n, (choices, obs)) in runs.iter().enumerate() {
            total += 1;
            steps += obs.choices.len() as u64;
            if let Some(m) = &obs.machinery {
                eprintln!("MACHINERY: script {name} schedule {choices:?}: {m}");
                return 2;
            }
            outcomes.insert(format!("{name}:{}:{}", obs.bestmoves.len(), obs.complaints.len()));
            if n == runs.len() / 2 {
                samples.push(obj(vec![("script", arr_s(&script)), ("choices", J::Arr(choices.iter().map(|c| i(*c as u64)).collect())), ("trace", arr_s(&obs.trace))]));
            }
            // nondeterminism guard: the same schedule must give the same observation
            let check_twice = thorough || n < 4 || !obs.complaints.is_empty();
            if check_twice {
                replays_checked += 1;
                let again = execute(&script, choices, counter.fetch_add(1, Ordering::Relaxed));
                if again.machinery.is_some() || again.bestmoves.len() != obs.bestmoves.len() || again.complaints.len() != obs.complaints.len() || again.trace != obs.trace {
                    eprintln!("MACHINERY: schedule {choices:?} of {name} is not reproducible: {:?} vs {:?}", obs.trace, again.trace);
                    eprintln!("  first: {:?}\n  again: {:?} {:?}", obs.complaints, again.complaints, again.machinery);
                    return 2;
                }
            }
            if let Some(first) = obs.complaints.first() {
                // signature: script + the state in which the decisive command was sent
                sink.report(
                    format!("{name}|{}", choices.iter().map(|c| c.to_string()).collect::<Vec<_>>().join("")),
                    format!("script {:?}, schedule {:?}: {first}; trace: {}", script, choices, obs.trace.join(" ; ")),
                    obj(vec![("kind", s("schedule")), ("script", arr_s(&script)), ("choices", J::Arr(choices.iter().map(|c| i(*c as u64)).collect())), ("name", s(name))]),
                );
            }
        }
    }
    let cov = Coverage {
        states: steps.max(1),
        transitions: steps.max(1),
        traces: total,
        samples,
        exhaustive: Some(thorough),
        extra: vec![
            ("schedules_executed".into(), i(total)),
            ("schedules_per_script".into(), J::Obj(per_script.iter().map(|(n, c)| (n.clone(), i(*c))).collect())),
            ("deviation_bound".into(), if thorough { s("unbounded (all merges)") } else { i(bound as u64) }),
            ("distinct_outcomes".into(), i(outcomes.len() as u64)),
            ("schedules_replayed_twice".into(), i(replays_checked)),
            ("rule".into(), s("a schedule = one merge of the command script with the search thread's held points {enter, armed, first iteration done, before bestmove, after bestmove, exit}, respecting the GUI protocol (a new go only after the previous bestmove was printed); states/transitions = scheduling decisions executed; every schedule runs on a fresh real process")),
        ],
        assumptions: vec![
            "the two threads conflict only through the running flag, the thread-finished bit and line-atomic stdout; the placement of stop relative to each individual flag poll inside a search is covered in-process by C09/C13".into(),
            "interleavings finer than the labelled points are not explored".into(),
        ],
    };
    report::finish(&sink, cov)
}

pub fn replay(doc: &J) -> i32 {
    let Some(r) = doc.get("replay") else { return 2 };
    let script = r.get("script").map(|x| x.str_list()).unwrap_or_default();
    let choices: Vec<usize> = r.get("choices").and_then(|x| x.arr()).map(|v| v.iter().filter_map(|c| c.int()).map(|c| c as usize).collect()).unwrap_or_default();
    let a = execute(&script, &choices, 900_001);
    let b = execute(&script, &choices, 900_002);
    if a.machinery.is_some() || b.machinery.is_some() || a.complaints.len() != b.complaints.len() {
        eprintln!("MACHINERY: replay not reproducible / failed: {:?} {:?}", a.machinery, b.machinery);
        return 2;
    }
    for t in &a.trace {
        println!("  {t}");
    }
    if let Some(c) = a.complaints.first() {
        println!("violation reproduced: {c}");
        1
    } else {
        println!("no violation");
        0
    }
}
