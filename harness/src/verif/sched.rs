//! C10: stateless exploration of the interleavings of a GUI command script with the search
//! thread's labelled steps, on the REAL executable. Every schedule is executed from a fresh
//! process; the controller decides every ordering through the blocking schedule points
//! (`RCE_VERIF_SCHED`), so the microsecond windows are forced open deterministically.
//!
//! Threads: the input thread (blocks on stdin between commands; a command is "done" when the
//! loop is back at `uci.wait_input`) and the search thread of each `go`, held at
//! search.enter / armed / iter_done(1st) / before_bestmove / after_bestmove / exit.

use super::report::{self, arr_s, i, obj, s, Coverage, Sink, J};
use super::session::Model;
use super::uciproc::Engine;
use super::Args;
use std::sync::atomic::{AtomicU64, Ordering};
use std::sync::Mutex;
use std::time::Duration;

const POINTS: [&str; 6] = ["search.enter", "search.armed", "search.iter_done", "search.before_bestmove", "search.after_bestmove", "search.exit"];

#[derive(Clone, Copy, Debug, PartialEq, Eq)]
enum SearchState {
    /// held at POINTS[k], arrival number n of that label
    Held(usize, u64),
    /// released but never seen again (a lost stop, an unbounded search nobody can end)
    Lost,
    Gone,
}

#[derive(Clone, Copy, Debug, PartialEq, Eq)]
enum Action {
    ReleaseSearch(usize),
    SendNext,
}

#[derive(Debug, Clone, Default)]
pub struct Observation {
    pub trace: Vec<String>,
    pub bestmoves: Vec<String>,
    pub readyoks: usize,
    pub errors: Vec<String>,
    pub complaints: Vec<String>,
    pub choice_points: Vec<usize>, // number of enabled actions at each step
    pub choices: Vec<usize>,
    pub machinery: Option<String>,
}

struct Search {
    state: SearchState,
    bounded: bool,
    stop_seen: bool,
    printed: bool,
    first_iteration_done: bool,
    root: super::oracle::Pos,
}

struct Run<'a> {
    e: Engine,
    script: &'a [String],
    next_cmd: usize,
    searches: Vec<Search>,
    /// `go`s that were refused while a search was genuinely running (allowed: no answer owed)
    refused_while_running: usize,
    input_blocked_in_join: bool,
    /// the input thread has not come back from this command (no hook says why): commands after
    /// it cannot be sent; only the search threads can move. Still blocked when nothing can move
    /// any more = deadlock.
    input_blocked_in: Option<String>,
    /// event counts / spawn count at the moment the joining go was sent
    pending_before: Vec<u64>,
    pending_spawned: u64,
    wait_inputs: u64,
    model: Model,
    obs: Observation,
}

const ARRIVE: Duration = Duration::from_secs(10);

impl<'a> Run<'a> {
    fn alive(&self) -> usize {
        self.searches.iter().filter(|s| s.state != SearchState::Gone).count()
    }

    fn enabled(&self) -> Vec<Action> {
        let mut v = vec![];
        for (i, s) in self.searches.iter().enumerate() {
            match s.state {
                // an unbounded search that has not been stopped stays at its first iteration
                // boundary: letting it run free would make everything after it a race. A stop
                // that arrives "in the middle of the search" is the stop sent in this state (the
                // flag is only read at polls, and the next poll sees it either way).
                SearchState::Held(2, _) if !s.bounded && !s.stop_seen => {}
                SearchState::Held(..) => v.push(Action::ReleaseSearch(i)),
                _ => {}
            }
        }
        if !self.input_blocked_in_join && self.input_blocked_in.is_none() && self.next_cmd < self.script.len() {
            let cmd = &self.script[self.next_cmd];
            // GUI protocol: a new go only after the previous search's bestmove has been printed;
            // `go! ...` is a go the GUI sends regardless (the engine may refuse it while a search
            // is running, but must stay consistent)
            let ok = !cmd.starts_with("go ") && cmd != "go" || self.searches.iter().all(|s| s.printed || s.state == SearchState::Lost);
            if ok || cmd.starts_with("go!") {
                v.push(Action::SendNext);
            }
        }
        v
    }

    fn counts(&mut self) -> Vec<u64> {
        POINTS.iter().map(|l| self.e.event_count(l)).collect()
    }

    /// Waits for search `i` (the only thread that is running) to arrive at its next hold point.
    fn await_search(&mut self, i: usize, before: &[u64], after_exit: bool) {
        if after_exit {
            // "gone" means the OS thread has really exited (this is what JoinHandle::is_finished
            // reports); when the input thread is joining it, the join itself is that synchronisation
            let expect = self.alive(); // input thread + the other live searches
            let began = std::time::Instant::now();
            while !self.input_blocked_in_join && self.e.thread_count() > expect {
                if began.elapsed() > ARRIVE {
                    self.obs.machinery = Some("search thread did not exit after search.exit was released".into());
                    break;
                }
                std::thread::sleep(Duration::from_micros(200));
            }
            self.searches[i].state = SearchState::Gone;
            return;
        }
        let must_end = self.searches[i].stop_seen || self.searches[i].bounded;
        let limit = if self.searches[i].stop_seen { Duration::from_secs(5) } else { ARRIVE };
        let began = std::time::Instant::now();
        let mut before: Vec<u64> = before.to_vec();
        loop {
            let now = self.counts();
            if let Some(k) = (0..POINTS.len()).find(|k| now[*k] > before[*k]) {
                if k == 2 && self.searches[i].first_iteration_done {
                    // a later iteration boundary: passed through without a hold, keep waiting
                    before[2] = now[2];
                    continue;
                }
                self.searches[i].state = SearchState::Held(k, now[k]);
                if k == 4 {
                    self.searches[i].printed = true;
                }
                return;
            }
            if began.elapsed() > limit {
                if must_end {
                    self.obs.complaints.push(format!(
                        "search #{} did not reach its next step within {} s although {}",
                        i + 1,
                        limit.as_secs(),
                        if self.searches[i].stop_seen { "stop had been processed" } else { "it is bounded" }
                    ));
                }
                self.searches[i].state = SearchState::Lost;
                return;
            }
            self.e.settle(Duration::from_micros(500));
        }
    }

    fn release(&mut self, i: usize) {
        let SearchState::Held(k, n) = self.searches[i].state else { return };
        if let Some(d) = &self.e.sched {
            // the hold on iteration boundaries is for a thread's FIRST boundary only
            let hold = d.join("hold.search.iter_done");
            if k < 2 && !self.searches[i].first_iteration_done {
                let _ = std::fs::write(&hold, b"");
            } else {
                let _ = std::fs::remove_file(&hold);
            }
        }
        if k == 2 {
            self.searches[i].first_iteration_done = true;
        }
        let before = self.counts();
        self.obs.trace.push(format!("release {} {n}", POINTS[k]));
        self.e.release(POINTS[k], n);
        self.await_search(i, &before, k == 5);
    }

    fn send_next(&mut self) {
        let raw = self.script[self.next_cmd].clone();
        self.next_cmd += 1;
        let cmd = raw.replacen("go!", "go", 1);
        self.obs.trace.push(format!("send {cmd}"));
        let is_go = cmd.starts_with("go");
        let searching = self.searches.iter().any(|s| !s.printed && s.state != SearchState::Gone && s.state != SearchState::Lost);
        if is_go {
            if let Some(d) = &self.e.sched {
                let _ = std::fs::write(d.join("hold.search.iter_done"), b"");
            }
        }
        let joins_before = self.e.event_count("uci.go_join");
        let spawned_before = self.e.event_count("uci.go_spawned");
        let before = self.counts();
        if !self.e.send(&cmd) {
            self.obs.complaints.push(format!("engine no longer accepts input at '{cmd}'"));
            return;
        }
        // the command is done when the loop is back at uci.wait_input - unless the go handler
        // is waiting for the previous search thread (notify-only point uci.go_join)
        let began = std::time::Instant::now();
        loop {
            if self.e.event_count("uci.wait_input") > self.wait_inputs {
                self.wait_inputs += 1;
                break;
            }
            if is_go && self.e.event_count("uci.go_join") > joins_before {
                self.input_blocked_in_join = true;
                self.pending_before = before.clone();
                self.pending_spawned = spawned_before;
                self.obs.trace.push("input thread joins the previous search thread".into());
                break;
            }
            if began.elapsed() > ARRIVE {
                if !self.e.alive() {
                    self.obs.complaints.push(format!("engine died while processing '{cmd}'"));
                } else if self.searches.iter().any(|s| s.state != SearchState::Gone && s.state != SearchState::Lost) {
                    // a search thread is alive and held by this controller: the command may be
                    // waiting for it. Go on with the search thread's steps and see.
                    self.obs.trace.push(format!("input thread is still inside '{cmd}' after {} s: blocked", ARRIVE.as_secs()));
                    self.input_blocked_in = Some(cmd.clone());
                    if cmd == "stop" {
                        // not processed yet: nobody has seen it
                    }
                } else {
                    self.obs.machinery = Some(format!("input thread did not finish '{cmd}' within {} s", ARRIVE.as_secs()));
                }
                return;
            }
            self.e.settle(Duration::from_micros(500));
        }
        if cmd == "isready" {
            // the answer is printed before the loop returns to uci.wait_input; allow 5 s anyway
            let want = self.script[..self.next_cmd].iter().filter(|c| *c == "isready").count();
            let began = std::time::Instant::now();
            loop {
                if self.e.count_lines("readyok") >= want {
                    break;
                }
                if began.elapsed() > Duration::from_secs(5) {
                    self.obs.complaints.push("isready was not answered with readyok within 5 s".into());
                    break;
                }
                self.e.settle(Duration::from_millis(1));
            }
        }
        if cmd == "stop" {
            // a stop ends the running search: every search alive now is expected to wind up
            for s in self.searches.iter_mut() {
                if s.state != SearchState::Gone {
                    s.stop_seen = true;
                }
            }
        }
        if is_go && !self.input_blocked_in_join {
            self.after_go(&cmd, spawned_before, &before, searching);
        }
        if !is_go {
            self.model.apply(&cmd);
        }
    }

    fn after_go(&mut self, cmd: &str, spawned_before: u64, before: &[u64], searching: bool) {
        if self.e.event_count("uci.go_spawned") > spawned_before {
            self.searches.push(Search {
                state: SearchState::Lost,
                bounded: super::session::go_bounded(cmd),
                stop_seen: false,
                printed: false,
                first_iteration_done: false,
                root: self.model.pos.clone(),
            });
            let i = self.searches.len() - 1;
            self.await_search(i, before, false);
            if self.searches[i].state == SearchState::Lost {
                self.obs.machinery = Some("a started search thread never reached search.enter".into());
            }
        } else if searching {
            // refused while a search was genuinely running: allowed, no answer is owed
            self.refused_while_running += 1;
            self.obs.trace.push("refused: a search is running".into());
        } else {
            self.obs.complaints.push(format!("'{cmd}' did not start a search (the go was dropped)"));
        }
    }

    fn step(&mut self, choice: usize) -> bool {
        let en = self.enabled();
        if en.is_empty() {
            return false;
        }
        if choice >= en.len() {
            self.obs.machinery = Some(format!("replayed choice {choice} out of range ({} enabled)", en.len()));
            return false;
        }
        self.obs.choice_points.push(en.len());
        self.obs.choices.push(choice);
        match en[choice] {
            Action::ReleaseSearch(i) => {
                self.release(i);
                if let Some(cmd) = self.input_blocked_in.clone() {
                    // has the blocked command come back meanwhile?
                    self.e.settle(Duration::from_millis(20));
                    if self.e.event_count("uci.wait_input") > self.wait_inputs {
                        self.wait_inputs += 1;
                        self.input_blocked_in = None;
                        self.obs.trace.push(format!("input thread is back from '{cmd}'"));
                        if cmd == "stop" {
                            for s in self.searches.iter_mut() {
                                if s.state != SearchState::Gone {
                                    s.stop_seen = true;
                                }
                            }
                        }
                        if !cmd.starts_with("go") {
                            self.model.apply(&cmd);
                        }
                    }
                }
                if self.input_blocked_in_join && self.searches[i].state == SearchState::Gone {
                    // the join can complete now: the go handler goes on to spawn the new search
                    let began = std::time::Instant::now();
                    while self.e.event_count("uci.wait_input") <= self.wait_inputs {
                        if began.elapsed() > ARRIVE {
                            self.obs.machinery = Some("go handler did not return after the old search thread exited".into());
                            return false;
                        }
                        self.e.settle(Duration::from_micros(500));
                    }
                    self.wait_inputs += 1;
                    self.input_blocked_in_join = false;
                    let cmd = self.script[self.next_cmd - 1].replacen("go!", "go", 1);
                    // the new thread may already have arrived: compare against the counts at send time
                    // (minus the steps the old thread made since, which are in its own state)
                    let mut before = self.pending_before.clone();
                    let now = self.counts();
                    // the old thread's later arrivals (after_bestmove / exit) are not the new thread's
                    for k in 1..POINTS.len() {
                        before[k] = now[k];
                    }
                    let spawned = self.pending_spawned;
                    self.after_go(&cmd, spawned, &before, false);
                }
            }
            Action::SendNext => self.send_next(),
        }
        self.obs.machinery.is_none()
    }
}

/// Executes one schedule: replays `prefix`, then always takes choice 0.
pub fn execute(script: &[String], prefix: &[usize], id: u64) -> Observation {
    let dir = report::verif_root().join(".work").join("sched").join(format!("{}_{id}", std::process::id()));
    let e = match Engine::start(Some(&dir), &POINTS) {
        Ok(e) => e,
        Err(m) => {
            return Observation {
                machinery: Some(m),
                ..Default::default()
            }
        }
    };
    let mut r = Run {
        e,
        script,
        next_cmd: 0,
        searches: vec![],
        refused_while_running: 0,
        input_blocked_in_join: false,
        input_blocked_in: None,
        pending_before: vec![],
        pending_spawned: 0,
        wait_inputs: 0,
        model: Model::new(),
        obs: Observation::default(),
    };
    // the loop announces itself once before the first command
    if !r.e.wait_event("uci.wait_input", 1, ARRIVE) {
        r.obs.machinery = Some("engine did not reach its command loop".into());
        return r.obs;
    }
    r.wait_inputs = 1;
    let mut k = 0;
    loop {
        let choice = prefix.get(k).copied().unwrap_or(0);
        if !r.step(choice) {
            break;
        }
        k += 1;
        if k > 300 {
            r.obs.machinery = Some("schedule longer than 300 steps".into());
            break;
        }
    }
    if r.obs.machinery.is_none() {
        r.e.settle(Duration::from_millis(30));
        let lines = r.e.lines();
        r.obs.bestmoves = lines.iter().filter(|l| l.starts_with("bestmove")).cloned().collect();
        r.obs.readyoks = lines.iter().filter(|l| *l == "readyok").count();
        r.obs.errors = r.e.err.iter().filter(|l| l.contains("Failed to") || l.contains("panicked")).cloned().collect();
        let readys = script.iter().filter(|c| *c == "isready").count();
        if let Some(cmd) = &r.input_blocked_in {
            r.obs.complaints.push(format!(
                "deadlock: the command loop never came back from '{cmd}' while no search thread can move without a further command ({}); every later command (a stop included) is never read",
                r.searches.iter().enumerate().map(|(i, s)| format!("search #{} {:?}", i + 1, s.state)).collect::<Vec<_>>().join(", ")
            ));
        } else if r.next_cmd == script.len() {
            // every accepted go is owed exactly one bestmove
            if r.obs.bestmoves.len() != r.searches.len() {
                r.obs.complaints.push(format!("{} searches were started but {} bestmove lines were printed", r.searches.len(), r.obs.bestmoves.len()));
            }
            if r.obs.readyoks != readys {
                r.obs.complaints.push(format!("{} isready but {} readyok", readys, r.obs.readyoks));
            }
            for (i, s) in r.searches.iter().enumerate() {
                if s.state != SearchState::Gone {
                    r.obs.complaints.push(format!("search #{} is still running at the end of the script (state {:?})", i + 1, s.state));
                }
            }
        } else {
            r.obs.complaints.push(format!("script stuck before '{}' (no action enabled)", script[r.next_cmd]));
        }
        // the k-th printed bestmove answers the k-th started search only when searches never
        // overlap; with overlapping searches every bestmove must at least be legal for some root
        for bm in r.obs.bestmoves.iter() {
            let mv = bm.split_whitespace().nth(1).unwrap_or("");
            if !r.searches.iter().any(|s| super::searchrun::legal_uci(&s.root).iter().any(|m| m == mv)) {
                r.obs.complaints.push(format!("'{bm}' is not legal in the position of any go of this session"));
            }
        }
        let mut allowed_refusals = r.refused_while_running;
        // a blank line may be turned down with a message: it is not a command of the GUI
        let mut allowed_blank = script.iter().filter(|c| c.trim().is_empty()).count();
        for e in &r.obs.errors {
            if e.contains("Failed to parse command") && allowed_blank > 0 {
                allowed_blank -= 1;
                continue;
            }
            if e.contains("Search is already running") && allowed_refusals > 0 {
                allowed_refusals -= 1;
                continue;
            }
            r.obs.complaints.push(format!("engine reported: {e}"));
        }
        r.e.send("quit");
        if r.e.wait_exit(Duration::from_secs(5)).is_none() {
            r.obs.complaints.push("engine did not exit on quit".into());
        }
    }
    r.obs
}

pub fn scripts() -> Vec<(&'static str, Vec<String>)> {
    let v = |x: &[&str]| x.iter().map(|t| t.to_string()).collect::<Vec<_>>();
    vec![
        ("go-infinite-stop", v(&["go infinite", "stop"])),
        ("go-depth2-stop", v(&["go depth 2", "stop"])),
        ("go-stop-go-stop", v(&["go infinite", "stop", "go infinite", "stop"])),
        ("go-go", v(&["go depth 1", "go depth 1"])),
        ("go-position-isready-stop", v(&["go infinite", "position startpos moves e2e4", "isready", "stop"])),
        ("go-isready-stop-position-go", v(&["go infinite", "isready", "stop", "position startpos moves e2e4", "go depth 1"])),
        ("stop-first", v(&["stop", "go depth 1", "isready"])),
        ("go-stop-go-bounded", v(&["go depth 1", "stop", "go depth 1"])),
        ("go-ucinewgame-stop", v(&["go infinite", "ucinewgame", "stop", "isready"])),
        ("double-stop", v(&["go infinite", "stop", "stop", "go depth 1"])),
        // the side to move is in check: the first generated pseudo-legal move is not legal
        ("in-check-go-stop", v(&["position fen 4k3/8/8/8/1b6/8/8/R3K2R w KQ - 0 1", "go infinite", "stop"])),
        ("in-check-b-go-stop", v(&["position startpos moves e2e4 d7d5 f1b5", "go infinite", "stop", "go depth 1"])),
        // a go the GUI sends although a search is running: it may be refused, nothing else may break
        ("go-go!-go!-stop", v(&["go infinite", "go! depth 1", "go! depth 1", "stop", "isready"])),
        ("go-go!-stop-go", v(&["go infinite", "go! infinite", "stop", "go depth 1"])),
        // an empty line and a blank line are lines like any other (they are not end of input)
        ("blank-lines", v(&["", "go infinite", "   ", "stop", "isready"])),
        // a time-limited go on a position whose whole tree is exhausted long before the limit:
        // it is answered when the depth runs out, and the next go is accepted
        // the GUI does not wait for the bestmove after stop: the next go arrives while the stopped
        // search may not even have noticed the stop yet
        ("stop-go!-at-once", v(&["go infinite", "stop", "go! depth 1", "isready"])),
        ("tiny-tree-movetime", v(&["position fen 7k/8/5K2/6Q1/8/8/8/8 w - - 0 1", "go movetime 600000", "go depth 1", "isready"])),
    ]
}

/// All choice sequences with at most `bound` deviations (a deviation = a choice other than
/// the default 0), level by level: each executed schedule reports its choice points, every
/// alternative at a point beyond its forced prefix becomes a schedule of the next level.
fn explore(script: &[String], bound: usize, counter: &AtomicU64, out: &Mutex<Vec<(Vec<usize>, Observation)>>) {
    let mut level: Vec<Vec<usize>> = vec![vec![]];
    let mut deviations = 0;
    while !level.is_empty() {
        let next: Mutex<Vec<Vec<usize>>> = Mutex::new(vec![]);
        let idx = std::sync::atomic::AtomicUsize::new(0);
        std::thread::scope(|sc| {
            for _ in 0..12usize.min(level.len()) {
                sc.spawn(|| loop {
                    let k = idx.fetch_add(1, Ordering::Relaxed);
                    if k >= level.len() {
                        break;
                    }
                    let prefix = &level[k];
                    let id = counter.fetch_add(1, Ordering::Relaxed);
                    let mut obs = execute(script, prefix, id);
                    // a controller-side hiccup (our own hand-shake timing out on an overloaded
                    // machine) is retried before it is allowed to end the run as a machinery error
                    for _ in 0..2 {
                        if obs.machinery.is_none() {
                            break;
                        }
                        obs = execute(script, prefix, counter.fetch_add(1, Ordering::Relaxed));
                    }
                    let points = obs.choice_points.clone();
                    let choices = obs.choices.clone();
                    let failed = obs.machinery.is_some();
                    out.lock().unwrap().push((choices.clone(), obs));
                    if failed || deviations >= bound {
                        continue;
                    }
                    let mut kids = vec![];
                    for p in prefix.len()..points.len() {
                        for alt in 1..points[p] {
                            let mut c = choices[..p].to_vec();
                            c.push(alt);
                            kids.push(c);
                        }
                    }
                    next.lock().unwrap().extend(kids);
                });
            }
        });
        level = next.into_inner().unwrap();
        level.sort();
        deviations += 1;
    }
}

pub fn run(args: &Args) -> i32 {
    let thorough = args.tier == "thorough";
    let sink = Sink::new("C10", &args.tier);
    let bound = if thorough { usize::MAX } else { 2 };
    let counter = AtomicU64::new(0);
    let mut total = 0u64;
    let mut steps = 0u64;
    let mut samples = vec![];
    let mut per_script = vec![];
    let mut outcomes = std::collections::BTreeSet::new();
    let mut replays_checked = 0u64;
    for (name, script) in scripts() {
        let out: Mutex<Vec<(Vec<usize>, Observation)>> = Mutex::new(vec![]);
        explore(&script, bound, &counter, &out);
        let runs = out.into_inner().unwrap();
        per_script.push((name.to_string(), runs.len() as u64));
        for (n, (choices, obs)) in runs.iter().enumerate() {
            total += 1;
            steps += obs.choices.len() as u64;
            if let Some(m) = &obs.machinery {
                eprintln!("MACHINERY: script {name} schedule {choices:?}: {m}");
                return 2;
            }
            outcomes.insert(format!("{name}:{}:{}", obs.bestmoves.len(), obs.complaints.len()));
            if n == runs.len() / 2 {
                samples.push(obj(vec![("script", arr_s(&script)), ("choices", J::Arr(choices.iter().map(|c| i(*c as u64)).collect())), ("trace", arr_s(&obs.trace))]));
            }
            // nondeterminism guard: the same schedule must give the same observation. A failing
            // schedule that does not reproduce exactly is executed a third time: if the failure
            // shows in at least two of the three executions it is reported (the engine itself
            // behaves non-deterministically under a fixed schedule - that is a race in the engine,
            // the controller being deterministic on every schedule of the unchanged tree); a
            // one-off is a machinery error.
            let check_twice = thorough || n < 4 || !obs.complaints.is_empty();
            let mut flaky_note = String::new();
            if check_twice {
                replays_checked += 1;
                let same = |a: &Observation, b: &Observation| a.machinery.is_none() && a.bestmoves.len() == b.bestmoves.len() && a.complaints.len() == b.complaints.len() && a.trace == b.trace;
                let again = execute(&script, choices, counter.fetch_add(1, Ordering::Relaxed));
                if !same(&again, obs) {
                    let third = execute(&script, choices, counter.fetch_add(1, Ordering::Relaxed));
                    let failing = [obs, &again, &third].iter().filter(|o| o.machinery.is_none() && !o.complaints.is_empty()).count();
                    let passing = [obs, &again, &third].iter().filter(|o| o.machinery.is_none() && o.complaints.is_empty()).count();
                    if failing >= 2 && !obs.complaints.is_empty() {
                        flaky_note = format!(" [the failure showed in {failing} of 3 executions of this schedule: the engine is not deterministic under a fixed schedule]");
                    } else if passing >= 2 && obs.complaints.is_empty() && same(&third, obs) {
                        // the second execution was the odd one out
                    } else {
                        eprintln!("MACHINERY: schedule {choices:?} of {name} is not reproducible: {:?} vs {:?}", obs.trace, again.trace);
                        eprintln!("  first: {:?}\n  again: {:?} {:?}\n  third: {:?} {:?}", obs.complaints, again.complaints, again.machinery, third.complaints, third.machinery);
                        return 2;
                    }
                }
            }
            if let Some(first) = obs.complaints.first() {
                // signature: script + the state in which the decisive command was sent
                sink.report(
                    format!("{name}|{}", choices.iter().map(|c| c.to_string()).collect::<Vec<_>>().join("")),
                    format!("script {:?}, schedule {:?}: {first}{flaky_note}; trace: {}", script, choices, obs.trace.join(" ; ")),
                    obj(vec![("kind", s("schedule")), ("script", arr_s(&script)), ("choices", J::Arr(choices.iter().map(|c| i(*c as u64)).collect())), ("name", s(name))]),
                );
            }
        }
    }
    // SAMPLED (not exhaustive), as in C14: both threads printing at once. An isready whose
    // answer is glued onto a line of the search thread is a command that was "silently discarded"
    // from the GUI's point of view. A torn line is a definite violation; its absence only samples
    // the OS scheduling of the two threads.
    let flood_rounds = if thorough { 100 } else { 24 };
    let mut flood_lines = 0u64;
    for round in 0..flood_rounds {
        match super::procprops::flood_round() {
            Err(e) => {
                eprintln!("MACHINERY: {e}");
                return 2;
            }
            Ok((n, bad)) => {
                flood_lines += n;
                if let Some(b) = bad {
                    sink.report("flood|torn-line".into(), format!("isready flood while the search thread reports ~100 iterations (round {round}): {b}"), obj(vec![("kind", s("flood"))]));
                    break;
                }
            }
        }
    }
    let cov = Coverage {
        states: steps.max(1),
        transitions: steps.max(1),
        traces: total,
        samples,
        exhaustive: Some(thorough),
        extra: vec![
            ("schedules_executed".into(), i(total)),
            ("schedules_per_script".into(), J::Obj(per_script.iter().map(|(n, c)| (n.clone(), i(*c))).collect())),
            ("deviation_bound".into(), if thorough { s("unbounded (all merges)") } else { i(bound as u64) }),
            ("distinct_outcomes".into(), i(outcomes.len() as u64)),
            ("schedules_replayed_twice".into(), i(replays_checked)),
            ("sampled_output_interleaving_rounds".into(), i(flood_rounds as u64)),
            ("sampled_output_interleaving_lines_checked".into(), i(flood_lines)),
            ("rule".into(), s("a schedule = one merge of the command script with the search thread's held points {enter, armed, first iteration done, before bestmove, after bestmove, exit}, respecting the GUI protocol (a new go only after the previous bestmove was printed); states/transitions = scheduling decisions executed; every schedule runs on a fresh real process")),
        ],
        assumptions: vec![
            "the two threads conflict only through the running flag, the thread-finished bit and line-atomic stdout; the placement of stop relative to each individual flag poll inside a search is covered in-process by C09/C13".into(),
            "interleavings finer than the labelled points are not explored".into(),
        ],
    };
    report::finish(&sink, cov)
}

pub fn replay(doc: &J) -> i32 {
    let Some(r) = doc.get("replay") else { return 2 };
    let script = r.get("script").map(|x| x.str_list()).unwrap_or_default();
    let choices: Vec<usize> = r.get("choices").and_then(|x| x.arr()).map(|v| v.iter().filter_map(|c| c.int()).map(|c| c as usize).collect()).unwrap_or_default();
    let a = execute(&script, &choices, 900_001);
    let b = execute(&script, &choices, 900_002);
    if a.machinery.is_some() || b.machinery.is_some() || a.complaints.len() != b.complaints.len() {
        eprintln!("MACHINERY: replay not reproducible / failed: {:?} {:?}", a.machinery, b.machinery);
        return 2;
    }
    for t in &a.trace {
        println!("  {t}");
    }
    if let Some(c) = a.complaints.first() {
        println!("violation reproduced: {c}");
        1
    } else {
        println!("no violation");
        0
    }
}
