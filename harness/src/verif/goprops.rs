//! C09 (in-process layer E1) and C14 (in-process layer): every `go` gets exactly one legal
//! bestmove / progress reports are truthful - over the full product of limit assignments
//! and deterministic clock / stop schedules, on the real Search code with captured output.

use super::infogrammar;
use super::oracle::Pos;
use super::report::{i, obj, s, J};
use super::searchrun::{self, Case, Cut, Limits, Opts, Out};
use super::spos::{self, SPos, P9};
use super::workers::Worker;
use super::Args;

/// wall-clock allowance for one tiny in-process search before the watchdog calls it an overrun
const ALLOW: std::time::Duration = std::time::Duration::from_secs(6);

pub const KINDS: [&str; 7] = ["depth", "nodes", "movetime", "wtime", "btime", "winc", "binc"];
pub const VALUES: [[u128; 2]; 7] = [[1, 2], [1, 30], [0, 50], [0, 1000], [0, 1000], [0, 100], [0, 100]];

/// assignment code in 0..3^7: digit k = 0 absent, 1 first value, 2 second value
pub fn assignment(code: u32) -> Limits {
    let mut l = Limits::default();
    let mut x = code;
    for k in 0..7 {
        let d = x % 3;
        x /= 3;
        if d == 0 {
            continue;
        }
        let v = VALUES[k][(d - 1) as usize];
        match k {
            0 => l.depth = Some(v),
            1 => l.nodes = Some(v as u64),
            2 => l.movetime = Some(v),
            3 => l.wtime = Some(v),
            4 => l.btime = Some(v),
            5 => l.winc = Some(v),
            _ => l.binc = Some(v),
        }
    }
    l
}

pub fn schedules(l: &Limits, k_clock: u64, k_stop: u64) -> Vec<Cut> {
    let bounded = l.depth.is_some() || l.nodes.is_some();
    let mut v = vec![];
    if bounded {
        v.push(Cut::ClockNever);
    }
    if l.has_time() {
        for k in 1..=k_clock {
            v.push(Cut::ClockAt(k));
        }
    }
    // the stop that is processed before the search thread has started to run
    v.push(Cut::StopBeforeStart);
    if !l.has_time() {
        // `go` with no time limit: the GUI ends it with `stop`, landing at the k-th poll
        let n = if bounded { k_stop.min(6) } else { k_stop };
        for k in 1..=n {
            v.push(Cut::StopAt(k));
        }
    }
    v
}

/// The C09 oracle on one finished run.
pub fn judge_go(out: &Out, legal: &[String]) -> Option<String> {
    if let Some(p) = &out.panicked {
        return Some(format!("the search panicked ({p}) - no bestmove is sent"));
    }
    if out.overran {
        return Some("the search did not end on its own: no bestmove within 6 s although every limit of this go had expired or was tiny".to_string());
    }
    let bm = searchrun::bestmoves(&out.log);
    if bm.len() != 1 {
        return Some(format!("{} bestmove lines instead of exactly one", bm.len()));
    }
    let mv = bm[0].split_whitespace().next().unwrap_or("");
    if !legal.iter().any(|m| m == mv) {
        return Some(format!("bestmove '{}' is not a legal move of the position", bm[0]));
    }
    None
}

fn case_for(p: &SPos, l: &Limits, cut: Cut) -> Case {
    Case {
        fen: p.fen.to_string(),
        history: spos::hist(p),
        limits: l.clone(),
        // exactly what Uci::go does: the depth limit is also the iteration bound
        max_depth: l.depth.map(|d| d.try_into().unwrap_or(u8::MAX)),
        cut,
        elapsed_ms: None,
    }
}

pub fn c09_worker(args: &Args, w: &Worker) -> i32 {
    searchrun::quiet_panics();
    let thorough = args.tier == "thorough";
    let npos = if thorough { P9.len() } else { 12 };
    let (k_clock, k_stop) = if thorough { (24, 48) } else { (8, 16) };
    let fresh = Opts { clear_cache: true, observe: false, neutral: false };
    let keep = Opts { clear_cache: false, observe: false, neutral: false };
    let mut idx = 0usize;
    let overruns = std::cell::Cell::new(0u32);
    'positions: for p in P9.iter().take(npos) {
        let Ok((board, pos, _)) = searchrun::open(p.fen, &spos::hist(p)) else {
            w.info("bad-position", p.name);
            continue;
        };
        let legal = searchrun::legal_uci(&pos);
        if legal.is_empty() {
            continue;
        }
        for code in 0..3u32.pow(7) {
            idx += 1;
            if !w.mine(idx) {
                continue;
            }
            let l = assignment(code);
            w.count("limit_assignments_x_positions", 1);
            for cut in schedules(&l, k_clock, k_stop) {
                let c = case_for(p, &l, cut);
                let out = searchrun::run_within(&board, &c, &fresh, ALLOW);
                w.count("searches", 1);
                w.count("search_nodes", out.nodes);
                if out.clock_fired || matches!(cut, Cut::StopAt(_) | Cut::StopBeforeStart) {
                    w.count("searches_interrupted", 1);
                }
                if code == 1000 && matches!(cut, Cut::ClockAt(3)) {
                    w.sample(obj(vec![("case", c.json()), ("log", super::report::arr_s(&out.log))]));
                }
                if let Some(why) = judge_go(&out, &legal) {
                    w.violation(&c.sig(), &format!("'{}' [{}] on {} ({}): {why}", l.go_line(), cut.text(), p.fen, p.name), &c.json());
                }
                if out.overran {
                    overruns.set(overruns.get() + 1);
                    if overruns.get() >= 3 {
                        // the run is failing anyway; do not spend minutes waiting for more of the same
                        w.count("enumeration_stopped_early_after_3_overruns", 1);
                        break 'positions;
                    }
                }
            }
            // consecutive searches in one session: the cache is not cleared in between
            if code % 5 == 0 {
                let cuts = schedules(&l, 3, 3);
                if let Some(cut) = cuts.first().copied() {
                    let c = case_for(p, &l, cut);
                    for round in 0..3 {
                        let out = searchrun::run_within(&board, &c, if round == 0 { &fresh } else { &keep }, ALLOW);
                        w.count("searches", 1);
                        w.count("searches_on_a_used_cache", u64::from(round > 0));
                        if let Some(why) = judge_go(&out, &legal) {
                            let mut r = c.json();
                            if let J::Obj(v) = &mut r {
                                v.push(("consecutive".into(), i(round + 1)));
                            }
                            w.violation(&format!("{}|seq{round}", c.sig()), &format!("consecutive search #{} of '{}' [{}] on {}: {why}", round + 1, l.go_line(), cut.text(), p.fen), &r);
                        }
                    }
                }
            }
        }
        // every node budget 1..T and every stop / clock point of a depth-2 search
        let base = searchrun::run(&board, &case_for(p, &Limits { depth: Some(2), ..Default::default() }, Cut::ClockNever), &fresh);
        if base.panicked.is_none() && base.nodes <= if thorough { 12_000 } else { 3_000 } {
            for n in 1..=base.nodes {
                idx += 1;
                if !w.mine(idx) {
                    continue;
                }
                let l = Limits { nodes: Some(n), ..Default::default() };
                let mut c = case_for(p, &l, Cut::ClockNever);
                c.max_depth = Some(2);
                let out = searchrun::run_within(&board, &c, &fresh, ALLOW);
                w.count("searches", 1);
                w.count("node_budget_points", 1);
                if let Some(why) = judge_go(&out, &legal) {
                    w.violation(&c.sig(), &format!("'go nodes {n}' on {}: {why}", p.fen), &c.json());
                }
            }
            for k in 1..=base.running_calls {
                idx += 1;
                if !w.mine(idx) {
                    continue;
                }
                let mut c = case_for(p, &Limits::default(), Cut::StopAt(k));
                c.max_depth = Some(2);
                let out = searchrun::run_within(&board, &c, &fresh, ALLOW);
                w.count("searches", 1);
                w.count("stop_points", 1);
                if let Some(why) = judge_go(&out, &legal) {
                    w.violation(&c.sig(), &format!("'go' stopped at flag poll {k} on {}: {why}", p.fen), &c.json());
                }
            }
        }
    }
    // lost positions (every root move collapses at some depth) and searches on a cache that
    // already holds tens of thousands of entries of OTHER positions
    crowded_and_losing(w, thorough, &mut idx, &|w, c, p, pos, out, tag| {
        w.count("searches", 1);
        if let Some(why) = judge_go(out, &searchrun::legal_uci(pos)) {
            w.violation(&format!("{}|{tag}", c.sig()), &format!("'{}' on {} ({}) [{tag}]: {why}", c.limits.go_line(), p.fen, p.name), &with_scenario(c, tag));
        }
    });
    // a shallower search of a NEARBY position on the cache left by a deeper search: the second
    // root was an interior node of the first search (possibly a fail-low node whose cached move
    // is only a placeholder); every position two plies away, depths 1..3, cache restored each time
    for p in P9.iter().take(if thorough { 16 } else { 6 }) {
        let Ok((board, pos, _)) = searchrun::open(p.fen, &spos::hist(p)) else { continue };
        let first = case_for(p, &Limits { depth: Some(4), ..Default::default() }, Cut::ClockNever);
        let base = searchrun::run(&board, &first, &fresh);
        if base.panicked.is_some() || base.nodes > 400_000 {
            continue;
        }
        let saved = crate::board::transposition_table::TRANSPOSITION_TABLE.read().unwrap_or_else(|e| e.into_inner()).clone();
        let mut seconds: Vec<(Vec<String>, bool)> = vec![];
        for m1 in pos.legal_moves() {
            let p1 = pos.make(&m1);
            for m2 in p1.legal_moves() {
                let p2 = p1.make(&m2);
                if !p2.legal_moves().is_empty() {
                    seconds.push((vec![m1.uci(), m2.uci()], p2.in_check(p2.white)));
                }
            }
        }
        // positions in check first (their first generated move is usually not legal)
        seconds.sort_by_key(|(_, chk)| !*chk);
        let cap = if thorough { 1500 } else { 250 };
        for (moves, _) in seconds.into_iter().take(cap) {
            idx += 1;
            if !w.mine(idx) {
                continue;
            }
            let mut h = spos::hist(p);
            h.extend(moves);
            let Ok((b2, pos2, _)) = searchrun::open(p.fen, &h) else { continue };
            let legal2 = searchrun::legal_uci(&pos2);
            for d in 1..=3u128 {
                *crate::board::transposition_table::TRANSPOSITION_TABLE.write().unwrap_or_else(|e| e.into_inner()) = saved.clone();
                let c = Case { fen: p.fen.to_string(), history: h.clone(), limits: Limits { depth: Some(d), ..Default::default() }, max_depth: Some(d as u8), cut: Cut::ClockNever, elapsed_ms: None };
                let out = searchrun::run(&b2, &c, &keep);
                w.count("searches", 1);
                w.count("second_searches_on_a_neighbours_cache", 1);
                if let Some(why) = judge_go(&out, &legal2) {
                    let mut r = c.json();
                    if let J::Obj(v) = &mut r {
                        v.push(("after_depth4_search_of".into(), s(p.fen)));
                    }
                    w.violation(&format!("{}|neighbour", c.sig()), &format!("'go depth {d}' on {} + {:?}, on the cache left by 'go depth 4' of {}: {why}", p.fen, h, p.fen), &r);
                }
            }
        }
    }
    // capture-dense positions: only limit assignments that end the search early; the limits
    // must also be honoured deep inside quiescence
    for p in spos::DENSE.iter() {
        let Ok((board, pos, _)) = searchrun::open(p.fen, &spos::hist(p)) else { continue };
        let legal = searchrun::legal_uci(&pos);
        for code in 0..3u32.pow(7) {
            idx += 1;
            if !w.mine(idx) || (!thorough && code % 9 != 0) {
                continue;
            }
            let l = assignment(code);
            if l.nodes.is_none() && !l.has_time() {
                continue;
            }
            let mut cuts: Vec<Cut> = vec![];
            if l.has_time() {
                cuts.extend([1u64, 2, 5, 40, 400].iter().map(|k| Cut::ClockAt(*k)));
            } else {
                cuts.push(Cut::ClockNever);
                cuts.push(Cut::StopAt(50));
            }
            for cut in cuts {
                let c = case_for(p, &l, cut);
                let out = searchrun::run_within(&board, &c, &fresh, ALLOW);
                w.count("searches", 1);
                w.count("searches_in_capture_dense_positions", 1);
                if let Some(why) = judge_go(&out, &legal) {
                    w.violation(&c.sig(), &format!("'{}' [{}] on {} ({}): {why}", l.go_line(), cut.text(), p.fen, p.name), &c.json());
                }
                if out.overran {
                    overruns.set(overruns.get() + 1);
                }
            }
            if overruns.get() >= 3 {
                w.count("enumeration_stopped_early_after_3_overruns", 1);
                break;
            }
        }
        if overruns.get() >= 3 {
            break;
        }
    }
    // larger searches: every stop poll and every clock check as a cut point (fork checkpointing)
    for p in P9.iter().take(if thorough { 12 } else { 4 }) {
        let Ok((_, pos, _)) = searchrun::open(p.fen, &spos::hist(p)) else { continue };
        let legal = searchrun::legal_uci(&pos);
        if legal.is_empty() {
            continue;
        }
        let depth: u128 = if thorough { 4 } else { 3 };
        let stride = if thorough { 1 } else { 2 };
        let stop_case = case_for(p, &Limits { depth: Some(depth), ..Default::default() }, Cut::ClockNever);
        fork_sweep(w, p, &stop_case, false, stride, "stop_points", &|o| judge_go(o, &legal));
        let clock_case = case_for(p, &Limits { depth: Some(depth), wtime: Some(1000), btime: Some(1000), ..Default::default() }, Cut::ClockNever);
        fork_sweep(w, p, &clock_case, true, stride, "clock_points", &|o| judge_go(o, &legal));
    }
    // whole games with the cache kept across positions
    selfplay(w, &args.tier, &mut idx, &|w, c, pos, out, ply| {
        w.count("searches", 1);
        w.count("searches_on_a_used_cache", u64::from(ply > 0));
        if let Some(why) = judge_go(out, &searchrun::legal_uci(pos)) {
            let mut r = c.json();
            if let J::Obj(v) = &mut r {
                v.push(("selfplay_ply".into(), i(ply as u64)));
            }
            w.violation(&format!("{}|selfplay", c.sig()), &format!("self-play game from {} after {:?} (cache kept), search #{}: {why}", c.fen, c.history, ply + 1), &r);
        }
    });
    w.done()
}

/// Fork sweep (see cutprops): every flag poll (stop) or limit check (clock expiry) of one larger
/// search becomes a cut point; `bad` judges the interrupted execution in the child.
pub fn fork_sweep(w: &Worker, p: &SPos, case: &Case, at_clock: bool, stride: u64, label: &str, bad: &dyn Fn(&Out) -> Option<String>) {
    let Ok((board, _, _)) = searchrun::open(p.fen, &spos::hist(p)) else { return };
    let opts = Opts { clear_cache: true, observe: false, neutral: false };
    let base = searchrun::run(&board, case, &opts);
    let k_max = if at_clock { base.clock_calls } else { base.running_calls };
    if base.panicked.is_some() || k_max == 0 {
        return;
    }
    let per = k_max.div_ceil(w.nshards as u64);
    let lo = 1 + per * w.shard as u64;
    let hi = (lo + per - 1).min(k_max);
    if lo > hi {
        return;
    }
    crate::rce_verif::fork_at_clock(at_clock);
    crate::rce_verif::fork_stride(stride, 0);
    crate::rce_verif::fork_range(lo, hi);
    let out = searchrun::run_within(&board, case, &opts, std::time::Duration::from_secs(3 * 3600));
    if crate::rce_verif::fork_child().is_some() {
        crate::rce_verif::fork_exit(i32::from(bad(&out).is_some()));
    }
    let (done, failed) = crate::rce_verif::fork_results();
    crate::rce_verif::fork_range(0, 0);
    crate::rce_verif::fork_at_clock(false);
    crate::rce_verif::fork_stride(1, 0);
    w.count("searches", done);
    w.count(&format!("{label}_by_fork"), done);
    let expected = (lo..=hi).filter(|n| n % stride == 0).count() as u64;
    if failed.is_empty() && (crate::rce_verif::fork_errors() > 0 || done != expected) {
        w.info("machinery", &format!("fork sweep of {} incomplete: {done} of {expected} children ran", p.fen));
    }
    for k in failed.into_iter().take(5) {
        let mut c = case.clone();
        c.cut = if at_clock { Cut::ClockAt(k) } else { Cut::StopAt(k) };
        let again = searchrun::run(&board, &c, &opts);
        let why = bad(&again).unwrap_or_else(|| "the forked child reported a violation that the re-execution does not show".into());
        w.violation(&format!("{}|fork", c.sig()), &format!("'{}' on {} cut at {} {k}/{k_max}: {why}", c.limits.go_line(), p.fen, if at_clock { "limit check" } else { "flag poll" }), &c.json());
    }
}

/// Repetition bait: the game history is arranged so that the engine's own preferred first move
/// re-enters a position that already occurred (P, m, r, m-back, r-back with m the engine's depth-1
/// choice at P). Searches and their reported lines then walk into repeated positions.
pub fn repetition_bait(p: &SPos) -> Option<Vec<String>> {
    let base = spos::hist(p);
    let (board, pos, _) = searchrun::open(p.fen, &base).ok()?;
    let first = case_for(p, &Limits { depth: Some(1), ..Default::default() }, Cut::ClockNever);
    let out = searchrun::run(&board, &first, &Opts { clear_cache: true, observe: false, neutral: false });
    let m = out.best?;
    let reversible = |q: &Pos, u: &str| -> Option<(Pos, String)> {
        let mv = q.legal_moves().into_iter().find(|x| x.uci() == u)?;
        if mv.captured != 0 || mv.piece.abs() == 1 || mv.castle || mv.promo != 0 {
            return None;
        }
        let back = format!("{}{}", &u[2..4], &u[0..2]);
        Some((q.make(&mv), back))
    };
    let (p1, m_back) = reversible(&pos, &m)?;
    for r in p1.legal_moves() {
        let Some((p2, r_back)) = reversible(&p1, &r.uci()) else { continue };
        let Some((p3, _)) = reversible(&p2, &m_back) else { continue };
        let Some((p4, _)) = reversible(&p3, &r_back) else { continue };
        if p4.ident() == pos.ident() {
            let mut h = base.clone();
            h.extend([m.clone(), r.uci(), m_back.clone(), r_back.clone()]);
            return Some(h);
        }
    }
    None
}

/// Game sessions: the engine plays against itself from a start position, one `go depth d` per
/// ply, and the cache is kept for the whole game (as in a real UCI session, where it is never
/// cleared). Every search is handed to `judge` with the position it was started from.
pub fn selfplay(w: &Worker, tier: &str, idx: &mut usize, judge: &dyn Fn(&Worker, &Case, &Pos, &Out, usize)) {
    let thorough = tier == "thorough";
    let fens: Vec<String> = include_str!("bench_fens.txt").lines().map(|l| l.trim().to_string()).filter(|l| !l.is_empty()).collect();
    let (nstarts, plies, depth) = if thorough { (fens.len(), 40usize, 4u128) } else { (32, 16usize, 4u128) };
    let fresh = Opts { clear_cache: true, observe: false, neutral: false };
    let keep = Opts { clear_cache: false, observe: false, neutral: false };
    for fen in fens.iter().take(nstarts) {
        *idx += 1;
        if !w.mine(*idx) {
            continue;
        }
        let mut history: Vec<String> = vec![];
        for ply in 0..plies {
            let Ok((board, pos, _)) = searchrun::open(fen, &history) else { break };
            if pos.legal_moves().is_empty() || pos.halfmove >= 100 {
                break;
            }
            let l = Limits { depth: Some(depth), ..Default::default() };
            let c = Case { fen: fen.clone(), history: history.clone(), limits: l, max_depth: Some(depth as u8), cut: Cut::ClockNever , elapsed_ms: None };
            let out = searchrun::run(&board, &c, if ply == 0 { &fresh } else { &keep });
            w.count("selfplay_searches", 1);
            judge(w, &c, &pos, &out, ply);
            let Some(best) = out.best.clone() else { break };
            if !searchrun::legal_uci(&pos).iter().any(|m| *m == best) {
                break;
            }
            history.push(best);
        }
        w.count("selfplay_games", 1);
    }
}

/// Two families shared by C09 and C14. (1) `LOSING`: 'go depth N', N = 1..6, fresh and kept cache.
/// (2) crowded cache: a filler search leaves far more than 32k entries of an unrelated position in
/// the process-wide table (the table never evicts by itself), then every position of `P9` (quick:
/// the first twelve) and of `LOSING` is searched to depths 1..4 on top of it without clearing.
/// The replay record carries `scenario`, so a replay prepares the cache the same way.
pub fn crowded_and_losing(w: &Worker, thorough: bool, idx: &mut usize, judge: &dyn Fn(&Worker, &Case, &SPos, &Pos, &Out, &str)) {
    let fresh = Opts { clear_cache: true, observe: false, neutral: false };
    let keep = Opts { clear_cache: false, observe: false, neutral: false };
    for p in spos::LOSING.iter() {
        *idx += 1;
        if !w.mine(*idx) {
            continue;
        }
        let Ok((board, pos, _)) = searchrun::open(p.fen, &spos::hist(p)) else { continue };
        for n in 1..=6u128 {
            let c = case_for(p, &Limits { depth: Some(n), ..Default::default() }, Cut::ClockNever);
            for (opts, tag) in [(&fresh, "losing-fresh"), (&keep, "losing-kept")] {
                let out = searchrun::run_within(&board, &c, opts, ALLOW);
                w.count("searches_of_lost_positions", 1);
                judge(w, &c, p, &pos, &out, tag);
            }
        }
    }
    // the largest depth limits on positions whose search stays tiny at any depth
    for p in spos::DEEP.iter() {
        for n in [254u128, 255] {
            *idx += 1;
            if !w.mine(*idx) {
                continue;
            }
            let Ok((board, pos, _)) = searchrun::open(p.fen, &spos::hist(p)) else { continue };
            let c = case_for(p, &Limits { depth: Some(n), ..Default::default() }, Cut::ClockNever);
            let out = searchrun::run_within(&board, &c, &fresh, std::time::Duration::from_secs(120));
            w.count("searches_with_maximal_depth_limit", 1);
            judge(w, &c, p, &pos, &out, "max-depth");
        }
    }
    // limits other than depth on positions whose whole tree is exhausted long before the limit:
    // the search runs out of depth (255 iterations) and must answer then, not when the limit expires
    for p in spos::DEEP.iter() {
        for l in [
            Limits { movetime: Some(3_600_000), ..Default::default() },
            Limits { nodes: Some(1_000_000_000_000), ..Default::default() },
            Limits { wtime: Some(72_000_000), btime: Some(72_000_000), ..Default::default() },
        ] {
            *idx += 1;
            if !w.mine(*idx) {
                continue;
            }
            let Ok((board, pos, _)) = searchrun::open(p.fen, &spos::hist(p)) else { continue };
            let c = case_for(p, &l, Cut::ClockNever);
            let out = searchrun::run_within(&board, &c, &fresh, std::time::Duration::from_secs(60));
            w.count("searches_that_run_out_of_depth_before_their_limit", 1);
            judge(w, &c, p, &pos, &out, "depth-exhausted");
        }
    }
    // child first, then its parent: 'go depth 1..3' on every position one ply below P, then
    // 'go depth 1..2' on P itself with the cache kept (the parent finds its child's ROOT entry,
    // scores at the very ends of the range included)
    for p in P9.iter().take(if thorough { 16 } else { 6 }).chain(spos::LOSING.iter()) {
        *idx += 1;
        if !w.mine(*idx) {
            continue;
        }
        let Ok((pboard, ppos, _)) = searchrun::open(p.fen, &spos::hist(p)) else { continue };
        for m in ppos.legal_moves() {
            let mut h = spos::hist(p);
            h.push(m.uci());
            let Ok((cboard, cpos, _)) = searchrun::open(p.fen, &h) else { continue };
            if cpos.legal_moves().is_empty() {
                continue;
            }
            for d1 in 1..=(if thorough { 3u128 } else { 2 }) {
                for d2 in 1..=2u128 {
                    let first = Case { fen: p.fen.to_string(), history: h.clone(), limits: Limits { depth: Some(d1), ..Default::default() }, max_depth: Some(d1 as u8), cut: Cut::ClockNever, elapsed_ms: None };
                    let o1 = searchrun::run_within(&cboard, &first, &fresh, ALLOW);
                    w.count("searches_child_then_parent", 1);
                    judge(w, &first, p, &cpos, &o1, "child-first");
                    let second = case_for(p, &Limits { depth: Some(d2), ..Default::default() }, Cut::ClockNever);
                    let o2 = searchrun::run_within(&pboard, &second, &keep, ALLOW);
                    w.count("searches_child_then_parent", 1);
                    judge(w, &second, p, &ppos, &o2, &format!("after-child:{}:{d1}", m.uci()));
                }
            }
        }
    }
    let list: Vec<&SPos> = P9.iter().take(if thorough { P9.len() } else { 12 }).chain(spos::LOSING.iter()).collect();
    for chunk in list.chunks(4) {
        *idx += 1;
        if !w.mine(*idx) {
            continue;
        }
        let entries = fill_cache();
        w.max("crowded_cache_entries_before_search", entries as u64);
        for p in chunk {
            let Ok((board, pos, _)) = searchrun::open(p.fen, &spos::hist(p)) else { continue };
            for n in 1..=4u128 {
                let c = case_for(p, &Limits { depth: Some(n), ..Default::default() }, Cut::ClockNever);
                let out = searchrun::run_within(&board, &c, &keep, ALLOW);
                w.count("searches_on_crowded_cache", 1);
                judge(w, &c, p, &pos, &out, "crowded");
                if out.nodes > 300_000 {
                    break;
                }
            }
        }
    }
}

/// "depth D score ... pv ..." of every iteration report of a log (nodes, time and nps left out)
pub fn iteration_reports(log: &[String]) -> Vec<String> {
    log.iter()
        .filter(|l| l.starts_with("info depth"))
        .map(|l| {
            let t: Vec<&str> = l.split_whitespace().collect();
            let depth = t.get(2).copied().unwrap_or("?");
            let from = t.iter().position(|x| *x == "score").unwrap_or(t.len());
            format!("depth {depth} {}", t[from..].join(" "))
        })
        .collect()
}

/// `scenario` key of a replay record for the tag of a search
pub fn scenario_of(tag: &str) -> Option<&'static str> {
    match tag {
        "crowded" => Some("crowded"),
        "kept-cache" | "losing-kept" => Some("kept"),
        _ => None,
    }
}

pub fn with_scenario(c: &Case, tag: &str) -> J {
    let mut r = c.json();
    if let (J::Obj(v), Some(sc)) = (&mut r, scenario_of(tag)) {
        v.push(("scenario".into(), s(sc)));
    }
    if let (J::Obj(v), Some(rest)) = (&mut r, tag.strip_prefix("after-child:")) {
        // "after-child:<move>:<depth>": the search of the child position that came first
        let mut it = rest.split(':');
        let mv = it.next().unwrap_or("").to_string();
        let d: u64 = it.next().and_then(|x| x.parse().ok()).unwrap_or(1);
        v.push(("after_child_search".into(), obj(vec![("move", s(mv)), ("depth", i(d))])));
    }
    r
}

/// Runs `case` with the cache prepared as the scenario of the record says.
pub fn run_scenario(board: &crate::board::Board, case: &Case, r: &J) -> Out {
    let fresh = Opts { clear_cache: true, observe: false, neutral: false };
    let keep = Opts { clear_cache: false, observe: false, neutral: false };
    if let Some(ch) = r.get("after_child_search") {
        let mut h = case.history.clone();
        h.push(ch.get("move").and_then(|x| x.str()).unwrap_or("").to_string());
        let d = ch.get("depth").and_then(|x| x.int()).unwrap_or(1) as u128;
        if let Ok((cb, _, _)) = searchrun::open(&case.fen, &h) {
            let first = Case { fen: case.fen.clone(), history: h, limits: Limits { depth: Some(d), ..Default::default() }, max_depth: Some(d as u8), cut: Cut::ClockNever, elapsed_ms: None };
            let _ = searchrun::run(&cb, &first, &fresh);
        }
        return searchrun::run(board, case, &keep);
    }
    match r.get("scenario").and_then(|x| x.str()) {
        Some("crowded") => {
            fill_cache();
            searchrun::run(board, case, &keep)
        }
        Some("kept") => {
            let _ = searchrun::run(board, case, &fresh);
            searchrun::run(board, case, &keep)
        }
        _ => searchrun::run(board, case, &fresh),
    }
}

/// Clears the cache and runs the filler search (perft position 3 to depth 9, about 80k entries).
pub fn fill_cache() -> usize {
    let filler = SPos { name: "filler", fen: "8/2p5/3p4/KP5r/1R3p1k/8/4P1P1/8 w - - 0 1", history: "" };
    if let Ok((board, _, _)) = searchrun::open(filler.fen, &[]) {
        let c = case_for(&filler, &Limits { depth: Some(9), ..Default::default() }, Cut::ClockNever);
        let _ = searchrun::run(&board, &c, &Opts { clear_cache: true, observe: false, neutral: false });
    }
    crate::board::transposition_table::TRANSPOSITION_TABLE.read().unwrap_or_else(|e| e.into_inner()).len()
}

pub fn c14_worker(args: &Args, w: &Worker) -> i32 {
    searchrun::quiet_panics();
    let thorough = args.tier == "thorough";
    let npos = if thorough { P9.len() } else { 16 };
    let node_cap: u64 = if thorough { 600_000 } else { 60_000 };
    let fresh = Opts { clear_cache: true, observe: false, neutral: false };
    let keep = Opts { clear_cache: false, observe: false, neutral: false };
    let mut idx = 0usize;
    let report = |w: &Worker, c: &Case, p: &SPos, pos: &Pos, out: &Out, full: Option<i64>, tag: &str| {
        w.count("logs_checked", 1);
        w.count("info_lines_checked", out.log.iter().filter(|l| l.starts_with("info")).count() as u64);
        if out.panicked.is_some() {
            // a panic before the bestmove is C09's finding; for C14 it means depth N is never reported
            if let Some(n) = full {
                w.violation(&format!("{}|{tag}|panic", c.sig()), &format!("'go depth {n}' on {} ({}): the search panicked before reporting all depths: {:?}", p.fen, p.name, out.panicked), &with_scenario(c, tag));
            }
            return;
        }
        let bad = infogrammar::check_log(&out.log, pos, full);
        if let Some(first) = bad.first() {
            w.violation(&format!("{}|{tag}", c.sig()), &format!("'{}' [{}] on {} ({}) [{tag}]: {first}", c.limits.go_line(), c.cut.text(), p.fen, p.name), &with_scenario(c, tag));
        }
    };
    for p in P9.iter().take(npos).chain(spos::LOSING.iter()) {
        let Ok((board, pos, _)) = searchrun::open(p.fen, &spos::hist(p)) else { continue };
        if pos.legal_moves().is_empty() {
            continue;
        }
        idx += 1;
        if !w.mine(idx) {
            continue;
        }
        // depth-only limits N = 1..: fresh cache, then the same with the cache of the session kept
        let mut last_nodes = 0;
        for n in 1..=6u128 {
            if last_nodes > node_cap {
                break;
            }
            let l = Limits { depth: Some(n), ..Default::default() };
            let c = case_for(p, &l, Cut::ClockNever);
            let out = searchrun::run(&board, &c, &fresh);
            last_nodes = out.nodes.max(last_nodes);
            w.count("depth_limited_searches", 1);
            w.max("deepest_depth_limit", n as u64);
            report(w, &c, p, &pos, &out, Some(n as i64), "fresh");
            if n == 3 {
                w.sample(obj(vec![("case", c.json()), ("log", super::report::arr_s(&out.log))]));
            }
            let out2 = searchrun::run(&board, &c, &keep);
            w.count("depth_limited_searches", 1);
            report(w, &c, p, &pos, &out2, Some(n as i64), "kept-cache");
        }
        // the same position with a history in which the engine's preferred move repeats a position
        if let Some(h) = repetition_bait(p) {
            if let Ok((b2, pos2, _)) = searchrun::open(p.fen, &h) {
                for n in 1..=4u128 {
                    let l = Limits { depth: Some(n), ..Default::default() };
                    let c = Case { fen: p.fen.to_string(), history: h.clone(), limits: l, max_depth: Some(n as u8), cut: Cut::ClockNever, elapsed_ms: None };
                    for opts in [&fresh, &keep] {
                        let out = searchrun::run(&b2, &c, opts);
                        w.count("depth_limited_searches", 1);
                        w.count("searches_with_repetition_bait", 1);
                        report(w, &c, p, &pos2, &out, Some(n as i64), "bait");
                    }
                }
            }
        }
        // node- and time-limited searches: ordering, grammar and PV clauses at every cut point,
        // and truthfulness: what a cut search reports as finished iterations must be a PREFIX of
        // what the uninterrupted search reports (same depth, score and PV line by line)
        let base = searchrun::run(&board, &case_for(p, &Limits { depth: Some(3), ..Default::default() }, Cut::ClockNever), &fresh);
        let base_reports = iteration_reports(&base.log);
        let prefix_check = |w: &Worker, c: &Case, out: &Out, tag: &str| {
            let got = iteration_reports(&out.log);
            if out.panicked.is_none() && (got.len() > base_reports.len() || got.iter().zip(base_reports.iter()).any(|(a, b)| a != b)) {
                let k = got.iter().zip(base_reports.iter()).position(|(a, b)| a != b).unwrap_or(base_reports.len().min(got.len()));
                w.violation(
                    &format!("{}|{tag}|prefix", c.sig()),
                    &format!(
                        "'{}' [{}] on {} ({}): iteration report #{} of the interrupted search is '{}' but the uninterrupted search reports '{}' - a report that does not describe a finished iteration",
                        c.limits.go_line(),
                        c.cut.text(),
                        p.fen,
                        p.name,
                        k + 1,
                        got.get(k).cloned().unwrap_or_default(),
                        base_reports.get(k).cloned().unwrap_or_else(|| "nothing more".into())
                    ),
                    &c.json(),
                );
            }
        };
        if base.panicked.is_none() && base.nodes <= if thorough { 20_000 } else { 4_000 } {
            for n in 1..=base.nodes {
                let l = Limits { nodes: Some(n), ..Default::default() };
                let mut c = case_for(p, &l, Cut::ClockNever);
                c.max_depth = Some(3);
                let out = searchrun::run(&board, &c, &fresh);
                w.count("node_limited_searches", 1);
                report(w, &c, p, &pos, &out, None, "nodes");
                prefix_check(w, &c, &out, "nodes");
            }
            for k in 1..=base.clock_calls.min(if thorough { 4_000 } else { 800 }) {
                let l = Limits { movetime: Some(50), ..Default::default() };
                let mut c = case_for(p, &l, Cut::ClockAt(k));
                c.max_depth = Some(3);
                let out = searchrun::run(&board, &c, &fresh);
                w.count("time_limited_searches", 1);
                report(w, &c, p, &pos, &out, None, "clock");
                prefix_check(w, &c, &out, "clock");
                // the same cut on the clock-management path (wtime/btime instead of movetime)
                let l2 = Limits { wtime: Some(1000), btime: Some(1000), ..Default::default() };
                let mut c2 = case_for(p, &l2, Cut::ClockAt(k));
                c2.max_depth = Some(3);
                let out2 = searchrun::run(&board, &c2, &fresh);
                w.count("time_limited_searches", 1);
                report(w, &c2, p, &pos, &out2, None, "clock-managed");
                prefix_check(w, &c2, &out2, "clock-managed");
            }
        }
    }
    crowded_and_losing(w, thorough, &mut idx, &|w, c, p, pos, out, tag| {
        w.count("depth_limited_searches", 1);
        report(w, c, p, pos, out, c.limits.depth.map(|d| d as i64), tag);
    });
    // whole games with the cache kept across positions: stale entries of earlier searches
    selfplay(w, &args.tier, &mut idx, &|w, c, pos, out, ply| {
        w.count("logs_checked", 1);
        w.count("info_lines_checked", out.log.iter().filter(|l| l.starts_with("info")).count() as u64);
        if out.panicked.is_some() {
            return; // judged by C09
        }
        let bad = infogrammar::check_log(&out.log, pos, Some(4));
        if let Some(first) = bad.first() {
            let mut r = c.json();
            if let J::Obj(v) = &mut r {
                v.push(("selfplay_ply".into(), i(ply as u64)));
            }
            w.violation(&format!("{}|selfplay", c.sig()), &format!("self-play game from {} after {:?} (cache kept for the whole game), search #{}: {first}", c.fen, c.history, ply + 1), &r);
        }
    });
    w.done()
}


/// Re-runs the self-play game of `case` (its history is the game so far) with the cache kept
/// and returns the outcome of the last search together with its root position.
fn replay_selfplay(case: &Case) -> Option<(Out, Pos)> {
    let mut last = None;
    for k in 0..=case.history.len() {
        let h = case.history[..k].to_vec();
        let (board, pos, _) = searchrun::open(&case.fen, &h).ok()?;
        let c = Case { fen: case.fen.clone(), history: h, limits: case.limits.clone(), max_depth: case.max_depth, cut: case.cut , elapsed_ms: None };
        let out = searchrun::run(&board, &c, &Opts { clear_cache: k == 0, observe: false, neutral: false });
        last = Some((out, pos));
    }
    last
}

pub fn replay_c09(doc: &J) -> i32 {
    let Some(r) = doc.get("replay") else { return 2 };
    if r.get("kind").and_then(|x| x.str()) == Some("session") {
        return super::procprops::replay_session("C09", r);
    }
    let Some(case) = Case::from_json(r) else { return 2 };
    searchrun::quiet_panics();
    if r.get("selfplay_ply").is_some() {
        let a = replay_selfplay(&case).map(|(o, p)| judge_go(&o, &searchrun::legal_uci(&p)));
        let b = replay_selfplay(&case).map(|(o, p)| judge_go(&o, &searchrun::legal_uci(&p)));
        if a != b {
            eprintln!("MACHINERY: replay not reproducible");
            return 2;
        }
        return match a.flatten() {
            Some(why) => {
                println!("violation reproduced: {why}");
                1
            }
            None => {
                println!("no violation");
                0
            }
        };
    }
    if r.get("after_depth4_search_of").is_some() {
        let Ok((b0, _, _)) = searchrun::open(&case.fen, &[]) else { return 2 };
        let Ok((b2, pos2, _)) = searchrun::open(&case.fen, &case.history) else { return 2 };
        let first = Case { fen: case.fen.clone(), history: vec![], limits: Limits { depth: Some(4), ..Default::default() }, max_depth: Some(4), cut: Cut::ClockNever, elapsed_ms: None };
        let mut v = vec![];
        for _ in 0..2 {
            let _ = searchrun::run(&b0, &first, &Opts { clear_cache: true, observe: false, neutral: false });
            let out = searchrun::run(&b2, &case, &Opts { clear_cache: false, observe: false, neutral: false });
            v.push(judge_go(&out, &searchrun::legal_uci(&pos2)));
        }
        if v[0] != v[1] {
            eprintln!("MACHINERY: replay not reproducible");
            return 2;
        }
        return match &v[0] {
            Some(why) => {
                println!("violation reproduced: {why}");
                1
            }
            None => {
                println!("no violation");
                0
            }
        };
    }
    let Ok((board, pos, _)) = searchrun::open(&case.fen, &case.history) else { return 2 };
    let legal = searchrun::legal_uci(&pos);
    let rounds = r.get("consecutive").and_then(|x| x.int()).unwrap_or(1);
    let mut verdicts = vec![];
    for _ in 0..2 {
        let mut v = None;
        if r.get("scenario").is_some() || r.get("after_child_search").is_some() {
            v = judge_go(&run_scenario(&board, &case, r), &legal);
        } else {
            for round in 0..rounds {
                let out = searchrun::run(&board, &case, &Opts { clear_cache: round == 0, observe: false, neutral: false });
                v = judge_go(&out, &legal);
            }
        }
        verdicts.push(v);
    }
    if verdicts[0] != verdicts[1] {
        eprintln!("MACHINERY: replay not reproducible");
        return 2;
    }
    match &verdicts[0] {
        Some(why) => {
            println!("violation reproduced: {why}");
            1
        }
        None => {
            println!("no violation");
            0
        }
    }
}

pub fn replay_c14(doc: &J) -> i32 {
    let Some(r) = doc.get("replay") else { return 2 };
    if r.get("kind").and_then(|x| x.str()) == Some("session") {
        return super::procprops::replay_session("C14", r);
    }
    let Some(case) = Case::from_json(r) else { return 2 };
    searchrun::quiet_panics();
    if r.get("selfplay_ply").is_some() {
        let f = |x: Option<(Out, Pos)>| x.map(|(o, p)| infogrammar::check_log(&o.log, &p, case.limits.depth.map(|d| d as i64)));
        let a = f(replay_selfplay(&case));
        let b = f(replay_selfplay(&case));
        if a != b {
            eprintln!("MACHINERY: replay not reproducible");
            return 2;
        }
        return match a {
            Some(v) if !v.is_empty() => {
                println!("violation reproduced: {}", v[0]);
                1
            }
            _ => {
                println!("no violation");
                0
            }
        };
    }
    let Ok((board, pos, _)) = searchrun::open(&case.fen, &case.history) else { return 2 };
    let full = if case.limits.nodes.is_none() && !case.limits.has_time() { case.limits.depth.map(|d| d as i64) } else { None };
    let mut verdicts = vec![];
    for _ in 0..2 {
        let out = run_scenario(&board, &case, r);
        let v = if out.panicked.is_some() { vec![format!("panicked: {:?}", out.panicked)] } else { infogrammar::check_log(&out.log, &pos, full) };
        for l in &out.log {
            println!("  {l}");
        }
        verdicts.push(v);
    }
    if verdicts[0] != verdicts[1] {
        eprintln!("MACHINERY: replay not reproducible");
        return 2;
    }
    if verdicts[0].is_empty() {
        println!("no violation");
        0
    } else {
        println!("violation reproduced: {}", verdicts[0][0]);
        1
    }
}
