//! One real `Search::search` call under harness control: position (FEN + history), limits,
//! interruption injector, cache treatment; returns everything observable about it.

use super::eng;
use super::oracle::{Mv, Pos};
use super::report::{arr_s, i, obj, s, J};
use crate::board::Board;
use crate::evaluate::simple_evaluator::SimpleEvaluator;
use crate::rce_verif as hooks;
use crate::rce_verif::TtWrite;
use crate::search::limits::SearchLimits;
use crate::search::Search;
use std::sync::Mutex;

#[derive(Clone, Debug, Default, PartialEq, Eq)]
pub struct Limits {
    pub depth: Option<u128>,
    pub nodes: Option<u64>,
    pub movetime: Option<u128>,
    pub wtime: Option<u128>,
    pub btime: Option<u128>,
    pub winc: Option<u128>,
    pub binc: Option<u128>,
}

impl Limits {
    pub fn to_engine(&self) -> SearchLimits {
        let mut l = SearchLimits::new();
        l.depth = self.depth.map(|d| d.try_into().unwrap_or(u8::MAX));
        l.nodes = self.nodes;
        l.movetime = self.movetime;
        l.white_time = self.wtime;
        l.black_time = self.btime;
        l.white_increment = self.winc;
        l.black_increment = self.binc;
        l
    }
    /// the `go` command line with these limits
    pub fn go_line(&self) -> String {
        let mut v = vec!["go".to_string()];
        for (k, x) in [("wtime", self.wtime), ("btime", self.btime), ("winc", self.winc), ("binc", self.binc), ("depth", self.depth), ("movetime", self.movetime)] {
            if let Some(x) = x {
                v.push(k.into());
                v.push(x.to_string());
            }
        }
        if let Some(n) = self.nodes {
            v.push("nodes".into());
            v.push(n.to_string());
        }
        v.join(" ")
    }
    pub fn has_time(&self) -> bool {
        self.movetime.is_some() || self.wtime.is_some() || self.btime.is_some() || self.winc.is_some() || self.binc.is_some()
    }
    pub fn json(&self) -> J {
        s(self.go_line())
    }
    pub fn from_go_line(line: &str) -> Limits {
        let t: Vec<&str> = line.split_whitespace().collect();
        let mut l = Limits::default();
        let mut k = 1;
        while k + 1 < t.len() {
            let v = t[k + 1];
            match t[k] {
                "wtime" => l.wtime = v.parse().ok(),
                "btime" => l.btime = v.parse().ok(),
                "winc" => l.winc = v.parse().ok(),
                "binc" => l.binc = v.parse().ok(),
                "depth" => l.depth = v.parse().ok(),
                "movetime" => l.movetime = v.parse().ok(),
                "nodes" => l.nodes = v.parse().ok(),
                _ => {}
            }
            k += 2;
        }
        l
    }
}

#[derive(Clone, Copy, Debug, PartialEq, Eq)]
pub enum Cut {
    /// real clock, nothing injected
    None,
    /// virtual clock on which time never passes
    ClockNever,
    /// virtual clock: every time limit expires at the k-th limit check
    ClockAt(u64),
    /// the running flag is cleared at the k-th is_running() call (emulated `stop`)
    StopAt(u64),
    /// the running flag is cleared before Search::search is entered: the `stop` was processed
    /// between `go` returning and the search thread starting to run
    StopBeforeStart,
}

impl Cut {
    pub fn text(&self) -> String {
        match self {
            Cut::None => "none".into(),
            Cut::ClockNever => "clock-never".into(),
            Cut::ClockAt(k) => format!("clock-at-{k}"),
            Cut::StopAt(k) => format!("stop-at-{k}"),
            Cut::StopBeforeStart => "stop-before-start".into(),
        }
    }
    pub fn parse(t: &str) -> Cut {
        if let Some(k) = t.strip_prefix("clock-at-") {
            Cut::ClockAt(k.parse().unwrap_or(1))
        } else if let Some(k) = t.strip_prefix("stop-at-") {
            Cut::StopAt(k.parse().unwrap_or(1))
        } else if t == "stop-before-start" {
            Cut::StopBeforeStart
        } else if t == "clock-never" {
            Cut::ClockNever
        } else {
            Cut::None
        }
    }
}

#[derive(Clone, Debug)]
pub struct Case {
    pub fen: String,
    pub history: Vec<String>,
    pub limits: Limits,
    /// `max_depth` argument of Search::search; `Uci::go` passes the depth limit here too
    pub max_depth: Option<u8>,
    pub cut: Cut,
    /// elapsed milliseconds the search sees once the virtual clock has fired (None: "a day")
    pub elapsed_ms: Option<u64>,
}

impl Case {
    pub fn json(&self) -> J {
        obj(vec![
            ("kind", s("search")),
            ("fen", s(self.fen.clone())),
            ("history", arr_s(&self.history)),
            ("go", self.limits.json()),
            ("max_depth", self.max_depth.map_or(J::Null, |d| i(d))),
            ("cut", s(self.cut.text())),
            ("elapsed_ms", self.elapsed_ms.map_or(J::Null, |d| i(d))),
        ])
    }
    pub fn from_json(j: &J) -> Option<Case> {
        Some(Case {
            fen: j.get("fen")?.str()?.to_string(),
            history: j.get("history").map(|x| x.str_list()).unwrap_or_default(),
            limits: Limits::from_go_line(j.get("go")?.str()?),
            max_depth: j.get("max_depth").and_then(|x| x.int()).map(|d| d as u8),
            cut: Cut::parse(j.get("cut").and_then(|x| x.str()).unwrap_or("none")),
            elapsed_ms: j.get("elapsed_ms").and_then(|x| x.int()).map(|d| d as u64),
        })
    }
    pub fn sig(&self) -> String {
        format!("{}|{}|{}|d{:?}|{}{}", self.fen, self.history.join(","), self.limits.go_line(), self.max_depth, self.cut.text(), self.elapsed_ms.map_or(String::new(), |e| format!("|e{e}")))
    }
}

#[derive(Clone, Debug, Default)]
pub struct Out {
    pub panicked: Option<String>,
    pub log: Vec<String>,
    pub best: Option<String>,
    pub score: Option<i16>,
    pub nodes: u64,
    pub writes: Vec<TtWrite>,
    pub running_calls: u64,
    pub clock_calls: u64,
    pub clock_fired: bool,
    /// the search did not end on its own within the wall-clock allowance and was stopped
    pub overran: bool,
    /// cache contents when the injected stop / clock expiry took effect, and at the end (observe only)
    pub cache_at_cut: Option<Vec<(u64, crate::board::transposition_table::TTEntry)>>,
    pub cache_at_end: Vec<(u64, crate::board::transposition_table::TTEntry)>,
    /// in a forked child: (entries, fingerprint) of the cache at the cut and at the end
    pub cache_fp: Option<((usize, u64), (usize, u64))>,
}

static LAST_PANIC: Mutex<String> = Mutex::new(String::new());

pub fn quiet_panics() {
    std::panic::set_hook(Box::new(|info| {
        let msg = info.to_string();
        *LAST_PANIC.lock().unwrap_or_else(|e| e.into_inner()) = msg;
    }));
}

pub fn last_panic() -> String {
    LAST_PANIC.lock().unwrap_or_else(|e| e.into_inner()).clone()
}

/// Engine board + oracle position for a case (history moves played on both).
pub fn open(fen: &str, history: &[String]) -> Result<(Board, Pos, Vec<super::oracle::Ident>), String> {
    let seed = super::seeds::Seed {
        name: "case".into(),
        fen: fen.to_string(),
        prefix: history.to_vec(),
        class: super::seeds::Class::Core,
    };
    let (b, p, _, ids) = super::explore::open_seed(&seed)?;
    Ok((b, p, ids))
}

pub struct Opts {
    pub clear_cache: bool,
    pub observe: bool,
    pub neutral: bool,
}

// ---- watchdog: a search that does not end on its own is stopped through the engine's own
// ---- running flag after a generous wall-clock allowance and reported as overrun; if even
// ---- that does not end it, the worker process exits (machinery error in the parent)
struct Watch {
    flag: Option<std::sync::Arc<std::sync::atomic::AtomicBool>>,
    deadline: Option<std::time::Instant>,
    overran: bool,
    /// the case being searched (written to a side file if the worker has to give up)
    case: String,
}
static WATCH: Mutex<Watch> = Mutex::new(Watch { flag: None, deadline: None, overran: false, case: String::new() });
static WATCH_STARTED: std::sync::Once = std::sync::Once::new();

fn watchdog_start() {
    WATCH_STARTED.call_once(|| {
        std::thread::spawn(|| loop {
            std::thread::sleep(std::time::Duration::from_millis(50));
            let mut w = WATCH.lock().unwrap_or_else(|e| e.into_inner());
            if let (Some(flag), Some(dl)) = (w.flag.clone(), w.deadline) {
                let now = std::time::Instant::now();
                if now > dl + std::time::Duration::from_secs(20) {
                    eprintln!("watchdog: a search ignored the stop flag for 20 s; giving up on this worker");
                    let dir = super::report::verif_root().join(".work").join("overrun");
                    let _ = std::fs::create_dir_all(&dir);
                    let _ = std::fs::write(dir.join(format!("{}.json", std::process::id())), w.case.as_bytes());
                    std::process::exit(3);
                }
                if now > dl {
                    w.overran = true;
                    flag.store(false, std::sync::atomic::Ordering::Relaxed);
                }
            }
        });
    });
}

pub fn overrun_allowance() -> std::time::Duration {
    std::time::Duration::from_secs(std::env::var("VERIF_SEARCH_ALLOWANCE_S").ok().and_then(|x| x.parse().ok()).unwrap_or(120))
}

pub fn run(board: &Board, case: &Case, o: &Opts) -> Out {
    run_within(board, case, o, overrun_allowance())
}

pub fn run_within(board: &Board, case: &Case, o: &Opts, allowance: std::time::Duration) -> Out {
    watchdog_start();
    if o.clear_cache {
        hooks::tt_clear();
    }
    hooks::tt_set_neutral(o.neutral);
    hooks::tt_observe(o.observe);
    let _ = hooks::tt_take_writes();
    let _ = hooks::tt_take_snapshot();
    hooks::log_arm(true);
    let _ = hooks::log_take();
    match case.cut {
        Cut::None => {
            hooks::clock_virtual(false, 0);
            hooks::stop_at(0);
        }
        Cut::ClockNever => {
            hooks::clock_virtual(true, 0);
            hooks::stop_at(0);
        }
        Cut::ClockAt(k) => {
            hooks::clock_virtual(true, k);
            hooks::stop_at(0);
        }
        Cut::StopAt(k) => {
            hooks::clock_virtual(true, 0);
            hooks::stop_at(k);
        }
        Cut::StopBeforeStart => {
            hooks::clock_virtual(true, 0);
            hooks::stop_at(0);
        }
    }
    hooks::clock_elapsed_after_fire(case.elapsed_ms.unwrap_or(u64::MAX));
    let limits = case.limits.to_engine();
    let max_depth = case.max_depth;
    let result = std::panic::catch_unwind(std::panic::AssertUnwindSafe(|| {
        let mut search = Search::new(board, Some(limits));
        {
            let mut w = WATCH.lock().unwrap_or_else(|e| e.into_inner());
            w.flag = Some(search.running.clone());
            w.deadline = Some(std::time::Instant::now() + allowance);
            w.overran = false;
            w.case = case.json().compact();
        }
        if case.cut == Cut::StopBeforeStart {
            search.running.store(false, std::sync::atomic::Ordering::Relaxed);
        }
        search.search(&SimpleEvaluator, max_depth);
        search.rce_verif_result()
    }));
    // (a forked child has no watchdog thread and must not touch a lock that thread may have held)
    let overran = if hooks::fork_child().is_some() {
        false
    } else {
        let mut w = WATCH.lock().unwrap_or_else(|e| e.into_inner());
        w.flag = None;
        w.deadline = None;
        w.overran
    };
    let mut out = Out {
        running_calls: hooks::running_calls(),
        clock_calls: hooks::clock_calls(),
        clock_fired: hooks::clock_fired(),
        overran,
        ..Default::default()
    };
    hooks::log_arm(false);
    if o.observe {
        out.cache_at_cut = hooks::tt_take_snapshot();
        if out.cache_at_cut.is_some() {
            out.cache_at_end = hooks::tt_contents();
        }
        if let Some(at_cut) = hooks::tt_fingerprint_at_cut() {
            out.cache_fp = Some((at_cut, hooks::tt_fingerprint()));
        }
    }
    hooks::tt_observe(false);
    hooks::tt_set_neutral(false);
    hooks::clock_virtual(false, 0);
    hooks::stop_at(0);
    out.log = hooks::log_take();
    out.writes = hooks::tt_take_writes();
    match result {
        Ok((best, score, nodes)) => {
            out.best = best.map(|p| p.to_notation());
            out.score = score;
            out.nodes = nodes;
        }
        Err(_) => out.panicked = Some(last_panic()),
    }
    out
}

pub fn bestmoves(log: &[String]) -> Vec<String> {
    log.iter()
        .filter_map(|l| l.strip_prefix("bestmove").map(|r| r.trim().to_string()))
        .collect()
}

pub fn legal_uci(pos: &Pos) -> Vec<String> {
    pos.legal_moves().iter().map(Mv::uci).collect()
}
