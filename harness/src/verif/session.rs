//! The 1-variable UCI session model (reference) and a generic runner of command sessions on
//! the real executable.

use super::oracle::{Ident, Pos};
use super::report::{arr_s, i, obj, s, J};
use super::uciproc::Engine;
use std::time::Duration;

/// Reference model of the session position: the last successfully loaded position (or the
/// start position), together with the earlier positions of that game.
#[derive(Clone)]
pub struct Model {
    pub pos: Pos,
    pub earlier: Vec<Ident>,
}

impl Model {
    pub fn new() -> Model {
        Model { pos: Pos::startpos(), earlier: vec![] }
    }

    /// Applies one well-formed command line. `position` with an illegal move or a malformed
    /// argument list is refused as a whole (previous position stays).
    pub fn apply(&mut self, line: &str) {
        let t: Vec<&str> = line.split_whitespace().collect();
        match t.first().copied() {
            Some("ucinewgame") => *self = Model::new(),
            Some("position") => {
                let (mut pos, rest) = match t.get(1).copied() {
                    Some("startpos") => (Pos::startpos(), &t[2..]),
                    Some("fen") if t.len() >= 8 => match Pos::from_fen(&t[2..8].join(" ")) {
                        Ok(p) => (p, &t[8..]),
                        Err(_) => return,
                    },
                    _ => return,
                };
                let mut earlier = vec![];
                if !rest.is_empty() {
                    if rest[0] != "moves" {
                        // trailing tokens that are not a move list: the engine ignores them
                        self.pos = pos;
                        self.earlier = earlier;
                        return;
                    }
                    for mv in &rest[1..] {
                        match pos.legal_moves().into_iter().find(|m| m.uci() == *mv) {
                            Some(m) => {
                                earlier.push(pos.ident());
                                pos = pos.make(&m);
                            }
                            None => return, // refused as a whole
                        }
                    }
                }
                self.pos = pos;
                self.earlier = earlier;
            }
            _ => {}
        }
    }
}

#[derive(Debug, Clone)]
pub struct GoResult {
    pub line: String,
    pub bestmoves: Vec<String>,
    pub waited_ms: u128,
    pub output: Vec<String>,
    pub legal: Vec<String>,
    pub root: Pos,
}

#[derive(Debug, Default)]
pub struct SessionResult {
    pub complaints: Vec<String>,
    pub gos: Vec<GoResult>,
    pub stderr_panics: u64,
    pub exited_in_ms: Option<u128>,
}

pub fn go_bounded(line: &str) -> bool {
    let l = super::searchrun::Limits::from_go_line(line);
    !line.contains("infinite") && (l.depth.is_some() || l.nodes.is_some() || l.has_time())
}

/// Upper bound the limits put on the answer time, in ms (None: tiny depth/node limits only).
pub fn go_allowed_ms(line: &str, white_to_move: bool) -> Option<u128> {
    let l = super::searchrun::Limits::from_go_line(line);
    let mut v: Option<u128> = None;
    let mut take = |x: u128| v = Some(v.map_or(x, |y| y.min(x)));
    if let Some(m) = l.movetime {
        take(m);
    }
    let (t, inc) = if white_to_move { (l.wtime, l.winc) } else { (l.btime, l.binc) };
    if l.wtime.is_some() || l.btime.is_some() || l.winc.is_some() || l.binc.is_some() {
        take(t.unwrap_or(0) + inc.unwrap_or(0));
    }
    v
}

pub enum End {
    Quit,
    CloseStdin,
    Leave,
}

/// Runs a command session on the real executable. After every line that is not `go`/`stop`/
/// `quit` an `isready` is NOT inserted automatically - sessions contain their own. The runner
/// waits for `readyok` after each `isready`, for `bestmove` after each bounded `go` and after
/// each `stop` that follows an unbounded `go`.
pub fn run(lines: &[String], end: End, check_go: bool) -> Result<SessionResult, String> {
    let mut e = Engine::start(None, &[])?;
    let mut model = Model::new();
    let mut res = SessionResult::default();
    // every go that has been sent: (line, root position, time sent, time allowed for the answer)
    let mut sent: Vec<(String, Pos, std::time::Instant)> = vec![];
    let slack = Duration::from_millis(5000);
    // waits until every go sent so far has its bestmove (the k-th bestmove answers the k-th go)
    fn settle_gos(e: &mut Engine, owed: usize, limit: Duration) -> bool {
        let began = std::time::Instant::now();
        loop {
            if e.count_lines("bestmove") >= owed {
                return true;
            }
            if began.elapsed() > limit {
                return false;
            }
            e.settle(Duration::from_millis(2));
        }
    }
    for line in lines {
        // `stop!` = stop sent without waiting for the bestmove (the next command follows at once)
        let wire = if line == "stop!" { "stop" } else { line.as_str() };
        if !e.send(wire) {
            res.complaints.push(format!("engine no longer accepts input at '{line}'"));
            break;
        }
        let first = line.split_whitespace().next().unwrap_or("");
        match first {
            "isready" => {
                let want = lines.iter().take_while(|l| !std::ptr::eq(*l, line)).filter(|l| *l == "isready").count() + 1;
                let began = std::time::Instant::now();
                while e.count_lines("readyok") < want {
                    if began.elapsed() > slack {
                        res.complaints.push(format!("no readyok within 5 s after 'isready' (session {:?})", lines));
                        break;
                    }
                    e.settle(Duration::from_millis(1));
                }
                if e.count_lines("readyok") < want {
                    break;
                }
            }
            "go" if check_go => {
                let root = model.pos.clone();
                sent.push((line.clone(), root.clone(), std::time::Instant::now()));
                if go_bounded(line) {
                    let allowed = go_allowed_ms(line, root.white).map_or(Duration::from_secs(10), |ms| Duration::from_millis(ms as u64) + slack);
                    settle_gos(&mut e, sent.len(), allowed);
                } else {
                    // give the search thread a moment so that a following stop lands mid-search
                    e.settle(Duration::from_millis(20));
                }
            }
            "stop" if check_go => {
                settle_gos(&mut e, sent.len(), slack);
            }
            _ => {}
        }
        if first != "stop!" {
            model.apply(line);
        }
    }
    if check_go {
        // anything still owed gets the allowance once more, then the answers are paired in order
        settle_gos(&mut e, sent.len(), slack);
        e.settle(Duration::from_millis(15));
        let out = e.out.clone();
        let best: Vec<(std::time::Instant, String)> = out.iter().filter(|(_, l)| l.starts_with("bestmove")).cloned().collect();
        for (k, (goline, root, at)) in sent.iter().enumerate() {
            // output between the previous bestmove and this go's bestmove
            let upto = best.get(k).map(|(t, _)| *t);
            let from = if k == 0 { None } else { best.get(k - 1).map(|(t, _)| *t) };
            let output: Vec<String> = out
                .iter()
                .filter(|(t, _)| from.is_none_or(|f| *t > f) && upto.is_none_or(|u| *t <= u))
                .map(|(_, l)| l.clone())
                .filter(|l| l.starts_with("info") || l.starts_with("bestmove"))
                .collect();
            let mut bm: Vec<String> = best.get(k).map(|(_, l)| vec![l.clone()]).unwrap_or_default();
            if k + 1 == sent.len() && best.len() > sent.len() {
                // surplus answers are charged to the last go
                bm.extend(best[sent.len()..].iter().map(|(_, l)| l.clone()));
            }
            res.gos.push(GoResult {
                line: goline.clone(),
                bestmoves: bm,
                waited_ms: upto.map_or(slack.as_millis(), |u| u.saturating_duration_since(*at).as_millis()),
                output,
                legal: super::searchrun::legal_uci(root),
                root: root.clone(),
            });
        }
    }
    match end {
        End::Quit => {
            e.send("quit");
            let began = std::time::Instant::now();
            match e.wait_exit(slack) {
                Some(_) => res.exited_in_ms = Some(began.elapsed().as_millis()),
                None => res.complaints.push(format!("engine did not exit within 5 s of 'quit' (session {:?})", lines)),
            }
        }
        End::CloseStdin => {
            e.close_stdin();
            let began = std::time::Instant::now();
            match e.wait_exit(slack) {
                Some(_) => res.exited_in_ms = Some(began.elapsed().as_millis()),
                None => res.complaints.push(format!("engine did not exit within 5 s of end-of-input (session {:?})", lines)),
            }
        }
        End::Leave => {}
    }
    e.settle(Duration::from_millis(5));
    res.stderr_panics = e.err.iter().filter(|l| l.contains("panicked")).count() as u64;
    if let Some(p) = e.err.iter().find(|l| l.contains("panicked")) {
        if check_go {
            // remembered for the go verdicts (a panicking search thread sends no bestmove)
            res.complaints.push(format!("panic on stderr: {p}"));
        }
    }
    if check_go {
        if let Some(r) = e.err.iter().find(|l| l.contains("Failed to execute command")) {
            res.complaints.push(format!("engine reported: {r}"));
        }
    }
    Ok(res)
}

/// C09's verdict on the `go`s of a finished session.
pub fn judge_gos(res: &SessionResult) -> Vec<String> {
    let mut bad = vec![];
    for g in &res.gos {
        if g.legal.is_empty() {
            continue;
        }
        if g.bestmoves.len() != 1 {
            bad.push(format!("'{}': {} bestmove lines within {} ms instead of exactly one", g.line, g.bestmoves.len(), g.waited_ms));
            continue;
        }
        let mv = g.bestmoves[0].split_whitespace().nth(1).unwrap_or("");
        if !g.legal.iter().any(|m| m == mv) {
            bad.push(format!("'{}': '{}' is not legal in {}", g.line, g.bestmoves[0], g.root.fen()));
        }
    }
    bad
}

pub fn session_json(lines: &[String], end: &str) -> J {
    obj(vec![("kind", s("session")), ("lines", arr_s(lines)), ("end", s(end)), ("n", i(lines.len() as u64))])
}
