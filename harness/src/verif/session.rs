//! The 1-variable UCI session model (reference) and a generic runner of command sessions on
//! the real executable.

use super::oracle::{Ident, Pos};
use super::report::{arr_s, i, obj, s, J};
use super::uciproc::Engine;
use std::time::Duration;

/// Reference model of the session position: the last successfully loaded position (or the
/// start position), together with the earlier positions of that game.
#[derive(Clone)]
pub struct Model {
    pub pos: Pos,
    pub earlier: Vec<Ident>,
}

impl Model {
    pub fn new() -> Model {
        Model { pos: Pos::startpos(), earlier: vec![] }
    }

    /// Applies one well-formed command line. `position` with an illegal move or a malformed
    /// argument list is refused as a whole (previous position stays).
    pub fn apply(&mut self, line: &str) {
        let t: Vec<&str> = line.split_whitespace().collect();
        match t.first().copied() {
            Some("ucinewgame") => *self = Model::new(),
            Some("position") => {
                let (mut pos, rest) = match t.get(1).copied() {
                    Some("startpos") => (Pos::startpos(), &t[2..]),
                    Some("fen") if t.len() >= 8 => match Pos::from_fen(&t[2..8].join(" ")) {
                        Ok(p) => (p, &t[8..]),
                        Err(_) => return,
                    },
                    _ => return,
                };
                let mut earlier = vec![];
                if !rest.is_empty() {
                    if rest[0] != "moves" {
                        // trailing tokens that are not a move list: the engine ignores them
                        self.pos = pos;
                        self.earlier = earlier;
                        return;
                    }
                    for mv in &rest[1..] {
                        match pos.legal_moves().into_iter().find(|m| m.uci() == *mv) {
                            Some(m) => {
                                earlier.push(pos.ident());
                                pos = pos.make(&m);
                            }
                            None => return, // refused as a whole
                        }
                    }
                }
                self.pos = pos;
                self.earlier = earlier;
            }
            _ => {}
        }
    }
}

#[derive(Debug, Clone)]
pub struct GoResult {
    pub line: String,
    pub bestmoves: Vec<String>,
    pub waited_ms: u128,
    pub output: Vec<String>,
    pub legal: Vec<String>,
    pub root: Pos,
}

#[derive(Debug, Default)]
pub struct SessionResult {
    pub complaints: Vec<String>,
    pub gos: Vec<GoResult>,
    pub stderr_panics: u64,
    pub exited_in_ms: Option<u128>,
}

pub fn go_bounded(line: &str) -> bool {
    let l = super::searchrun::Limits::from_go_line(line);
    !line.contains("infinite") && (l.depth.is_some() || l.nodes.is_some() || l.has_time())
}

/// Upper bound the limits put on the answer time, in ms (None: tiny depth/node limits only).
pub fn go_allowed_ms(line: &str, white_to_move: bool) -> Option<u128> {
    let l = super::searchrun::Limits::from_go_line(line);
    let mut v: Option<u128> = None;
    let mut take = |x: u128| v = Some(v.map_or(x, |y| y.min(x)));
    if let Some(m) = l.movetime {
        take(m);
    }
    let (t, inc) = if white_to_move { (l.wtime, l.winc) } else { (l.btime, l.binc) };
    if l.wtime.is_some() || l.btime.is_some() || l.winc.is_some() || l.binc.is_some() {
        take(t.unwrap_or(0) + inc.unwrap_or(0));
    }
    v
}

pub enum End {
    Quit,
    CloseStdin,
    Leave,
}

/// Runs a command session on the real executable. After every line that is not `go`/`stop`/
/// `quit` an `isready` is NOT inserted automatically - sessions contain their own. The runner
/// waits for `readyok` after each `isready`, for `bestmove` after each bounded `go` and after
/// each `stop` that follows an unbounded `go`.
pub fn run(lines: &[String], end: End, check_go: bool) -> Result<SessionResult, String> {
    let mut e = Engine::start(None, &[])?;
    let mut model = Model::new();
    let mut res = SessionResult::default();
    let mut pending_go: Option<(String, Pos)> = None; // unbounded go waiting for stop
    let slack = Duration::from_millis(5000);
    for line in lines {
        if !e.send(line) {
            res.complaints.push(format!("engine no longer accepts input at '{line}'"));
            break;
        }
        let first = line.split_whitespace().next().unwrap_or("");
        match first {
            "isready" => {
                if e.wait_line(|l| l == "readyok", slack).is_none() {
                    res.complaints.push(format!("no readyok within 5 s after 'isready' (session {:?})", lines));
                    break;
                }
            }
            "go" if check_go => {
                let root = model.pos.clone();
                if go_bounded(line) {
                    let allowed = go_allowed_ms(line, root.white).map_or(Duration::from_secs(10), |ms| Duration::from_millis(ms as u64) + slack);
                    let mark = e.out.len();
                    let got = e.wait_line(|l| l.starts_with("bestmove"), allowed);
                    let waited = got.as_ref().map_or(allowed.as_millis(), |(_, d)| d.as_millis());
                    e.settle(Duration::from_millis(15));
                    let output: Vec<String> = e.out[mark..].iter().map(|(_, l)| l.clone()).collect();
                    res.gos.push(GoResult {
                        line: line.clone(),
                        bestmoves: output.iter().filter(|l| l.starts_with("bestmove")).cloned().collect(),
                        waited_ms: waited,
                        output,
                        legal: super::searchrun::legal_uci(&root),
                        root,
                    });
                } else {
                    pending_go = Some((line.clone(), root));
                    // give the search thread a moment so that the stop lands mid-search
                    e.settle(Duration::from_millis(20));
                }
            }
            "stop" if check_go => {
                if let Some((goline, root)) = pending_go.take() {
                    let mark = e.out.iter().rposition(|(_, l)| l.starts_with("bestmove")).map_or(0, |p| p + 1);
                    let got = e.wait_line(|l| l.starts_with("bestmove"), slack);
                    let waited = got.as_ref().map_or(slack.as_millis(), |(_, d)| d.as_millis());
                    e.settle(Duration::from_millis(15));
                    let output: Vec<String> = e.out[mark..].iter().map(|(_, l)| l.clone()).collect();
                    res.gos.push(GoResult {
                        line: format!("{goline} ... stop"),
                        bestmoves: output.iter().filter(|l| l.starts_with("bestmove")).cloned().collect(),
                        waited_ms: waited,
                        output,
                        legal: super::searchrun::legal_uci(&root),
                        root,
                    });
                }
            }
            _ => {}
        }
        model.apply(line);
    }
    match end {
        End::Quit => {
            e.send("quit");
            let began = std::time::Instant::now();
            match e.wait_exit(slack) {
                Some(_) => res.exited_in_ms = Some(began.elapsed().as_millis()),
                None => res.complaints.push(format!("engine did not exit within 5 s of 'quit' (session {:?})", lines)),
            }
        }
        End::CloseStdin => {
            e.close_stdin();
            let began = std::time::Instant::now();
            match e.wait_exit(slack) {
                Some(_) => res.exited_in_ms = Some(began.elapsed().as_millis()),
                None => res.complaints.push(format!("engine did not exit within 5 s of end-of-input (session {:?})", lines)),
            }
        }
        End::Leave => {}
    }
    e.settle(Duration::from_millis(5));
    res.stderr_panics = e.err.iter().filter(|l| l.contains("panicked")).count() as u64;
    if let Some(p) = e.err.iter().find(|l| l.contains("panicked")) {
        if check_go {
            // remembered for the go verdicts (a panicking search thread sends no bestmove)
            res.complaints.push(format!("panic on stderr: {p}"));
        }
    }
    Ok(res)
}

/// C09's verdict on the `go`s of a finished session.
pub fn judge_gos(res: &SessionResult) -> Vec<String> {
    let mut bad = vec![];
    for g in &res.gos {
        if g.legal.is_empty() {
            continue;
        }
        if g.bestmoves.len() != 1 {
            bad.push(format!("'{}': {} bestmove lines within {} ms instead of exactly one", g.line, g.bestmoves.len(), g.waited_ms));
            continue;
        }
        let mv = g.bestmoves[0].split_whitespace().nth(1).unwrap_or("");
        if !g.legal.iter().any(|m| m == mv) {
            bad.push(format!("'{}': '{}' is not legal in {}", g.line, g.bestmoves[0], g.root.fen()));
        }
    }
    bad
}

pub fn session_json(lines: &[String], end: &str) -> J {
    obj(vec![("kind", s("session")), ("lines", arr_s(lines)), ("end", s(end)), ("n", i(lines.len() as u64))])
}
