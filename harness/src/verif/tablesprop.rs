//! C06: attack tables, decided by COMPLETE enumeration of the input domain (no walk):
//! every square x every subset of the squares on the piece's lines, each under a family of
//! off-line backgrounds, for rook, bishop and queen; all 64 squares for knight, king, pawns.

use super::oracle::{sq_name, Pos};
use super::report::{self, i, obj, s, Coverage, Sink, J};
use super::Args;
use crate::board::bitboard::Bitboard;
use crate::board::piece::bishop::Bishop;
use crate::board::piece::queen::Queen;
use crate::board::piece::rook::Rook;
use crate::board::piece::{Color, Kind};
use crate::board::square::Square;
use crate::board::Board;
use std::sync::atomic::{AtomicU64, Ordering};

const ROOK_D: [(i8, i8); 4] = [(0, 1), (1, 0), (0, -1), (-1, 0)];
const BISHOP_D: [(i8, i8); 4] = [(1, 1), (1, -1), (-1, -1), (-1, 1)];

fn step(s: u8, df: i8, dr: i8) -> Option<u8> {
    let f = (s & 7) as i8 + df;
    let r = (s >> 3) as i8 + dr;
    if (0..8).contains(&f) && (0..8).contains(&r) {
        Some((r * 8 + f) as u8)
    } else {
        None
    }
}

/// squares on the lines of a slider standing on `sq` (excluding `sq`), all the way to the edges
fn line_squares(sq: u8, dirs: &[(i8, i8)]) -> Vec<u8> {
    let mut v = vec![];
    for &(df, dr) in dirs {
        let mut c = sq;
        while let Some(t) = step(c, df, dr) {
            v.push(t);
            c = t;
        }
    }
    v
}

/// reference: slide along each line up to and including the first blocker
fn ray_attacks(sq: u8, occ: u64, dirs: &[(i8, i8)]) -> u64 {
    let mut a = 0u64;
    for &(df, dr) in dirs {
        let mut c = sq;
        while let Some(t) = step(c, df, dr) {
            a |= 1u64 << t;
            if occ & (1u64 << t) != 0 {
                break;
            }
            c = t;
        }
    }
    a
}

fn subset_mask(squares: &[u8], idx: u32) -> u64 {
    let mut m = 0u64;
    for (k, sq) in squares.iter().enumerate() {
        if idx & (1 << k) != 0 {
            m |= 1u64 << sq;
        }
    }
    m
}

fn backgrounds(off_line: u64, full: bool) -> Vec<u64> {
    let mut v = vec![0u64, off_line];
    if full {
        for b in 0..64 {
            if off_line & (1u64 << b) != 0 {
                v.push(1u64 << b);
            }
        }
    }
    v
}

fn bb(x: u64) -> Bitboard {
    Bitboard::new(x)
}

pub fn run(args: &Args) -> i32 {
    let sink = Sink::new("C06", &args.tier);
    let cases = AtomicU64::new(0);
    let lookups = AtomicU64::new(0);
    let samples: std::sync::Mutex<Vec<J>> = std::sync::Mutex::new(vec![]);
    // both tiers enumerate the full space; thorough additionally pairs every line subset with
    // every single-square background for the queen
    let thorough = args.tier == "thorough";

    std::thread::scope(|sc| {
        for sq in 0..64u8 {
            let (sink, cases, lookups, samples) = (&sink, &cases, &lookups, &samples);
            sc.spawn(move || {
                let square = Square::from(sq);
                let me = 1u64 << sq;
                let rl = line_squares(sq, &ROOK_D);
                let bl = line_squares(sq, &BISHOP_D);
                let rmask: u64 = rl.iter().fold(0, |a, s| a | (1u64 << s));
                let bmask: u64 = bl.iter().fold(0, |a, s| a | (1u64 << s));
                let mut n_cases = 0u64;
                let mut n_look = 0u64;
                // --- rook: all 2^14 subsets of its lines
                let off = !(rmask | me);
                let bgs = backgrounds(off, true);
                for idx in 0..(1u32 << rl.len()) {
                    let on_line = subset_mask(&rl, idx);
                    let want = ray_attacks(sq, on_line, &ROOK_D);
                    n_cases += 1;
                    for (bi, bg) in bgs.iter().enumerate() {
                        // the piece's own square is occupied in real positions: try both
                        for own in [0u64, me] {
                            let occ = on_line | bg | own;
                            let got: u64 = u64::from(Rook::get_attacks_wrapper(square, bb(occ)));
                            n_look += 1;
                            if got != want {
                                sink.report(
                                    format!("rook|{}|{on_line:#x}", sq_name(sq)),
                                    format!("rook on {} with occupancy {occ:#018x}: engine {got:#018x}, ray walk {want:#018x}", sq_name(sq)),
                                    obj(vec![("kind", s("table")), ("piece", s("rook")), ("square", i(sq)), ("occupancy", s(format!("{occ:#x}")))]),
                                );
                            }
                        }
                        if sq == 27 && idx == 0x1234 && bi == 1 {
                            samples.lock().unwrap().push(obj(vec![("piece", s("rook")), ("square", s(sq_name(sq))), ("occupancy", s(format!("{:#018x}", on_line | bg))), ("attacks", s(format!("{want:#018x}")))]));
                        }
                    }
                }
                // --- bishop: all subsets of its lines
                let off = !(bmask | me);
                let bgs = backgrounds(off, true);
                for idx in 0..(1u32 << bl.len()) {
                    let on_line = subset_mask(&bl, idx);
                    let want = ray_attacks(sq, on_line, &BISHOP_D);
                    n_cases += 1;
                    for bg in &bgs {
                        for own in [0u64, me] {
                            let occ = on_line | bg | own;
                            let got: u64 = u64::from(Bishop::get_attacks_wrapper(square, bb(occ)));
                            n_look += 1;
                            if got != want {
                                sink.report(
                                    format!("bishop|{}|{on_line:#x}", sq_name(sq)),
                                    format!("bishop on {} with occupancy {occ:#018x}: engine {got:#018x}, ray walk {want:#018x}", sq_name(sq)),
                                    obj(vec![("kind", s("table")), ("piece", s("bishop")), ("square", i(sq)), ("occupancy", s(format!("{occ:#x}")))]),
                                );
                            }
                        }
                    }
                }
                // --- queen: every rook-line subset x {bishop lines empty, full, each single square}
                //     and every bishop-line subset x {rook lines empty, full, each single square}
                let all_d: Vec<(i8, i8)> = ROOK_D.iter().chain(BISHOP_D.iter()).copied().collect();
                let off = !(rmask | bmask | me);
                for (primary, secondary_mask) in [(&rl, bmask), (&bl, rmask)] {
                    let mut sec = backgrounds(secondary_mask, true);
                    sec.push(off); // plus everything off both lines
                    sec.push(off | secondary_mask);
                    for idx in 0..(1u32 << primary.len()) {
                        let on_line = subset_mask(primary, idx);
                        n_cases += 1;
                        for sb in &sec {
                            if !thorough && sb.count_ones() == 1 && idx % 8 != 0 {
                                continue; // quick: single-square secondaries on every 8th subset
                            }
                            let occ = on_line | sb | me;
                            let want = ray_attacks(sq, occ, &all_d);
                            let got: u64 = u64::from(Queen::get_attacks(square, bb(occ)));
                            n_look += 1;
                            if got != want {
                                sink.report(
                                    format!("queen|{}|{occ:#x}", sq_name(sq)),
                                    format!("queen on {} with occupancy {occ:#018x}: engine {got:#018x}, ray walk {want:#018x}", sq_name(sq)),
                                    obj(vec![("kind", s("table")), ("piece", s("queen")), ("square", i(sq)), ("occupancy", s(format!("{occ:#x}")))]),
                                );
                            }
                        }
                    }
                }
                cases.fetch_add(n_cases, Ordering::Relaxed);
                lookups.fetch_add(n_look, Ordering::Relaxed);
            });
        }
    });

    // leapers and pawns through Kind::get_attacks (the board argument is irrelevant for them,
    // but two different boards are used to show that)
    let boards = [Board::from_fen(super::seeds::START), Board::from_fen("8/8/8/8/8/8/8/K6k w - - 0 1")];
    let knight_d: [(i8, i8); 8] = [(1, 2), (2, 1), (2, -1), (1, -2), (-1, -2), (-2, -1), (-2, 1), (-1, 2)];
    let king_d: [(i8, i8); 8] = [(0, 1), (1, 1), (1, 0), (1, -1), (0, -1), (-1, -1), (-1, 0), (-1, 1)];
    let mut leaper_cases = 0u64;
    for sq in 0..64u8 {
        let square = Square::from(sq);
        let offs = |d: &[(i8, i8)]| d.iter().filter_map(|&(df, dr)| step(sq, df, dr)).fold(0u64, |a, t| a | (1u64 << t));
        let table: Vec<(&str, Kind, u64)> = vec![
            ("knight", Kind::Knight(Color::White), offs(&knight_d)),
            ("knight(b)", Kind::Knight(Color::Black), offs(&knight_d)),
            ("king", Kind::King(Color::White), offs(&king_d)),
            ("king(b)", Kind::King(Color::Black), offs(&king_d)),
            ("white pawn", Kind::Pawn(Color::White), offs(&[(-1, 1), (1, 1)])),
            ("black pawn", Kind::Pawn(Color::Black), offs(&[(-1, -1), (1, -1)])),
        ];
        for (name, kind, want) in table {
            for b in &boards {
                leaper_cases += 1;
                let got: u64 = u64::from(kind.get_attacks(square, b));
                if got != want {
                    sink.report(
                        format!("{name}|{}", sq_name(sq)),
                        format!("{name} on {}: engine {got:#018x}, offsets with edge tests {want:#018x}", sq_name(sq)),
                        obj(vec![("kind", s("table")), ("piece", s(name)), ("square", i(sq))]),
                    );
                }
            }
        }
        // sliders through the Kind interface on a real board (conformance of the wrapper path)
        for b in &boards {
            let occ = super::eng::observe(b).sq.iter().enumerate().fold(0u64, |a, (k, p)| if *p != 0 { a | (1u64 << k) } else { a });
            for (name, kind, dirs) in [
                ("rook", Kind::Rook(Color::White), ROOK_D.to_vec()),
                ("bishop", Kind::Bishop(Color::Black), BISHOP_D.to_vec()),
                ("queen", Kind::Queen(Color::White), ROOK_D.iter().chain(BISHOP_D.iter()).copied().collect()),
            ] {
                leaper_cases += 1;
                let got: u64 = u64::from(kind.get_attacks(square, b));
                let want = ray_attacks(sq, occ, &dirs);
                if got != want {
                    sink.report(
                        format!("kind-{name}|{}", sq_name(sq)),
                        format!("Kind::{name}.get_attacks on {}: engine {got:#018x}, ray walk {want:#018x}", sq_name(sq)),
                        obj(vec![("kind", s("table")), ("piece", s(name)), ("square", i(sq))]),
                    );
                }
            }
        }
    }
    let _ = Pos::empty();
    let n_cases = cases.load(Ordering::Relaxed) + leaper_cases;
    let n_look = lookups.load(Ordering::Relaxed) + leaper_cases;
    let mut smp = samples.into_inner().unwrap();
    smp.push(obj(vec![("piece", s("knight")), ("square", s("a1")), ("attacks", s("b3 c2"))]));
    let cov = Coverage {
        states: n_cases,
        transitions: n_look,
        traces: n_look,
        samples: smp,
        exhaustive: Some(true),
        extra: vec![
            ("rule".into(), s("states = (piece, square, subset of the squares on its lines) cases [rook 64 x 2^14, bishop all subsets, queen rook-line and bishop-line subsets] + leaper/pawn cases; transitions = table lookups compared, each case under the backgrounds {empty, all off-line squares, every single off-line square} x {own square occupied or not}")),
            ("leaper_and_interface_cases".into(), i(leaper_cases)),
        ],
        assumptions: vec![
            "random full-board occupancies of the property text are replaced by the enumerated background family (nothing is sampled)".into(),
            "queen occupancies: every subset of one line family combined with {empty, full, every single square} of the other family, not the full 2^27".into(),
        ],
    };
    report::finish(&sink, cov)
}
