//! C07: loading a FEN yields exactly the position it describes, and the loaded position then
//! behaves like the same position reached by play.
//!
//! For every base position of the explorer walk: the 6- and 4-field strings, EVERY castling
//! subset consistent with the placement, no en-passant square and EVERY en-passant square valid
//! for the placement (either colour to move), a boundary grid of clocks x move numbers, and a
//! bisimulation (depth 1, every 8th base depth 2) between the board reached by play and the
//! board loaded from the oracle's FEN. Three base positions get the FULL 151 x 6000 clock grid.

use super::eng;
use super::explore::{self, Budget, PathRef, Prop, Stats, Tables, Walk};
use super::oracle::{self, Mv, Pos, BK, BQ, K, P, R, WK, WQ};
use super::report::{self, i, obj, s, Coverage, Sink, J};
use super::seeds;
use super::Args;
use crate::board::zkey::ZKey;
use crate::board::Board;
use std::sync::atomic::{AtomicU64, Ordering};

const HALF: [u32; 10] = [0, 1, 2, 49, 50, 99, 100, 101, 149, 150];
const FULL: [u32; 10] = [1, 2, 3, 99, 100, 255, 256, 1000, 5999, 6000];

pub struct Counters {
    pub strings: AtomicU64,
    pub bases: AtomicU64,
    pub castle_variants: AtomicU64,
    pub ep_variants: AtomicU64,
    pub clock_variants: AtomicU64,
    pub bisim_nodes: AtomicU64,
    pub legal_checked: AtomicU64,
}

/// One FEN string through the engine's loader, compared with the oracle's independent parse.
fn check_string(sink: &Sink, fen: &str, sig: &str, legal: bool, c: &Counters) -> Option<Board> {
    c.strings.fetch_add(1, Ordering::Relaxed);
    let want = match Pos::from_fen(fen) {
        Ok(p) => p,
        Err(e) => {
            eprintln!("MACHINERY: generated FEN rejected by the reference reader: {fen}: {e}");
            return None;
        }
    };
    let loaded = std::panic::catch_unwind(|| Board::from_fen(fen));
    let mut b = match loaded {
        Ok(b) => b,
        Err(_) => {
            sink.report(
                format!("{sig}|panic"),
                format!("Board::from_fen panicked on the valid FEN '{fen}'"),
                obj(vec![("kind", s("fen")), ("fen", s(fen))]),
            );
            return None;
        }
    };
    let seen = eng::observe(&b);
    if seen != want {
        sink.report(
            format!("{sig}|fields"),
            format!("from_fen('{fen}'): {}", eng::diff(&seen, &want)),
            obj(vec![("kind", s("fen")), ("fen", s(fen))]),
        );
    }
    let k = eng::key(&b);
    let scratch = ZKey::from(&b).rce_verif_u64();
    if k != scratch {
        sink.report(
            format!("{sig}|key"),
            format!("from_fen('{fen}'): stored key {k} != from-scratch key {scratch}"),
            obj(vec![("kind", s("fen")), ("fen", s(fen))]),
        );
    }
    if !b.rce_verif_position_keys().is_empty() || b.rce_verif_history_len() != 1 {
        sink.report(
            format!("{sig}|memory"),
            format!("from_fen('{fen}'): a freshly loaded position remembers {} earlier positions / {} undo records", b.rce_verif_position_keys().len(), b.rce_verif_history_len()),
            obj(vec![("kind", s("fen")), ("fen", s(fen))]),
        );
    }
    if legal {
        c.legal_checked.fetch_add(1, Ordering::Relaxed);
        let mut a: Vec<Mv> = eng::legal(&mut b).into_iter().map(|(m, _)| m).collect();
        let mut o = want.legal_moves();
        a.sort();
        o.sort();
        if a != o {
            sink.report(
                format!("{sig}|moves"),
                format!("from_fen('{fen}'): legal moves of the loaded position differ from the rules ({} vs {})", a.len(), o.len()),
                obj(vec![("kind", s("fen")), ("fen", s(fen))]),
            );
        }
    }
    Some(b)
}

/// castling rights that the placement allows (king and rook on their original squares)
fn allowed_rights(p: &Pos) -> [bool; 4] {
    [
        p.sq[4] == K && p.sq[7] == R,
        p.sq[4] == K && p.sq[0] == R,
        p.sq[60] == -K && p.sq[63] == -R,
        p.sq[60] == -K && p.sq[56] == -R,
    ]
}

/// en-passant files valid for the placement with `white` to move: an enemy pawn on its fourth
/// rank whose two squares behind it are empty (it can have just advanced two squares)
fn valid_ep_files(p: &Pos, white: bool) -> Vec<u8> {
    let mut v = vec![];
    for f in 0..8usize {
        let ok = if white {
            p.sq[32 + f] == -P && p.sq[40 + f] == 0 && p.sq[48 + f] == 0
        } else {
            p.sq[24 + f] == P && p.sq[16 + f] == 0 && p.sq[8 + f] == 0
        };
        if ok {
            v.push(f as u8);
        }
    }
    v
}

/// Same move sequences on the board reached by play and on the board loaded from its FEN:
/// equal observables after every make and every unmake.
fn bisim(sink: &Sink, played: &mut Board, loaded: &mut Board, pos: &Pos, depth: u32, sig: &str, line: &mut Vec<String>, c: &Counters) {
    c.bisim_nodes.fetch_add(1, Ordering::Relaxed);
    let a = eng::observe(played);
    let b = eng::observe(loaded);
    let (ka, kb) = (eng::key(played), eng::key(loaded));
    let ma = eng::legal(played);
    let mb = eng::legal(loaded);
    let da: Vec<Mv> = ma.iter().map(|(m, _)| *m).collect();
    let db: Vec<Mv> = mb.iter().map(|(m, _)| *m).collect();
    if a != b || ka != kb || da != db || a != *pos {
        sink.report(
            format!("{sig}|bisim"),
            format!(
                "position reached by play and the same position loaded from FEN '{}' diverge after {:?}: {} / keys {ka} vs {kb} / {} vs {} legal moves",
                pos.fen(),
                line,
                eng::diff(&a, &b),
                da.len(),
                db.len()
            ),
            obj(vec![("kind", s("fen-bisim")), ("fen", s(pos.fen())), ("line", report::arr_s(line))]),
        );
        return;
    }
    if depth == 0 {
        return;
    }
    for ((m, pa), (_, pb)) in ma.iter().zip(mb.iter()) {
        let next = pos.make(m);
        played.make_move(*pa);
        loaded.make_move(*pb);
        line.push(m.uci());
        bisim(sink, played, loaded, &next, depth - 1, sig, line, c);
        line.pop();
        played.unmake_move();
        loaded.unmake_move();
        if eng::observe(played) != eng::observe(loaded) || eng::key(played) != eng::key(loaded) {
            sink.report(
                format!("{sig}|bisim-unmake"),
                format!("after unmaking {} the played and the FEN-loaded position differ (FEN '{}')", m.uci(), pos.fen()),
                obj(vec![("kind", s("fen-bisim")), ("fen", s(pos.fen())), ("line", report::arr_s(line))]),
            );
            return;
        }
    }
}

fn family(sink: &Sink, board: &mut Board, pos: &Pos, sig: &str, c: &Counters, nth: u64) {
    c.bases.fetch_add(1, Ordering::Relaxed);
    // the position itself: 6 and 4 fields
    let loaded = check_string(sink, &pos.fen(), sig, true, c);
    check_string(sink, &pos.fen4(), &format!("{sig}|4f"), false, c);
    // bisimulation played vs loaded
    if let Some(mut l) = loaded {
        let depth = if nth % 8 == 0 { 2 } else { 1 };
        bisim(sink, board, &mut l, pos, depth, sig, &mut vec![], c);
    }
    // every castling subset the placement allows
    let allow = allowed_rights(pos);
    for mask in 0..16u32 {
        let rights = [mask & 1 != 0, mask & 2 != 0, mask & 4 != 0, mask & 8 != 0];
        if (0..4).any(|k| rights[k] && !allow[k]) {
            continue;
        }
        let mut v = pos.clone();
        v.castle = rights;
        if v.castle == pos.castle {
            continue;
        }
        c.castle_variants.fetch_add(1, Ordering::Relaxed);
        check_string(sink, &v.fen(), &format!("{sig}|castle{mask}"), true, c);
    }
    // every en-passant square valid for the placement, for either side to move, and none
    for white in [true, false] {
        let mut base = pos.clone();
        base.white = white;
        base.ep_file = None;
        if base.in_check(!white) {
            continue; // the side that is not to move may not be in check in a valid FEN
        }
        let mut options: Vec<Option<u8>> = valid_ep_files(&base, white).into_iter().map(Some).collect();
        options.push(None);
        for ep in options {
            let mut v = base.clone();
            v.ep_file = ep;
            if v == *pos {
                continue;
            }
            c.ep_variants.fetch_add(1, Ordering::Relaxed);
            check_string(sink, &v.fen(), &format!("{sig}|ep{ep:?}{white}"), true, c);
            check_string(sink, &v.fen4(), &format!("{sig}|ep4f{ep:?}{white}"), false, c);
        }
    }
    // boundary grid of the counters
    for h in HALF {
        for f in FULL {
            let mut v = pos.clone();
            v.halfmove = h;
            v.fullmove = f;
            c.clock_variants.fetch_add(1, Ordering::Relaxed);
            check_string(sink, &v.fen(), &format!("{sig}|clk{h}-{f}"), false, c);
        }
    }
}

pub fn run(args: &Args) -> i32 {
    let thorough = args.tier == "thorough";
    let sink = Sink::new("C07", &args.tier);
    if let Err(e) = oracle::self_check(false) {
        eprintln!("MACHINERY: {e}");
        return 2;
    }
    let c = Counters {
        strings: AtomicU64::new(0),
        bases: AtomicU64::new(0),
        castle_variants: AtomicU64::new(0),
        ep_variants: AtomicU64::new(0),
        clock_variants: AtomicU64::new(0),
        bisim_nodes: AtomicU64::new(0),
        legal_checked: AtomicU64::new(0),
    };
    let nth = AtomicU64::new(0);
    let collector = |board: &mut Board, pos: &Pos, path: &PathRef, _st: &mut Stats| {
        let n = nth.fetch_add(1, Ordering::Relaxed);
        family(&sink, board, pos, &path.sig("fen"), &c, n);
    };
    let walk = Walk {
        prop: Prop::Collect,
        sink: &sink,
        tables: Tables::new(1),
        collect: Some(&collector),
        perturb_per_seed: 0,
        perturb_insert: false,
    };
    let seeds = seeds::all();
    let b = if thorough {
        Budget { core: 40_000, feature: 6_000, bench: 1_500, max_depth: 6 }
    } else {
        Budget { core: 1_200, feature: 250, bench: 60, max_depth: 4 }
    };
    let out = explore::explore(&walk, &seeds, &b);
    if !out.machinery_errors.is_empty() {
        for e in &out.machinery_errors {
            eprintln!("MACHINERY: {e}");
        }
        return 2;
    }
    // the FULL counter grid 0..=150 x 1..=6000 on three base positions
    let full_bases = [seeds::START, seeds::KIWIPETE, "8/2p5/3p4/KP5r/1R3p1k/8/4P1P1/8 b - - 0 1"];
    let full_grid = AtomicU64::new(0);
    std::thread::scope(|sc| {
        for (bi, fen) in full_bases.iter().enumerate() {
            for part in 0..5u32 {
                let (sink, c, full_grid) = (&sink, &c, &full_grid);
                sc.spawn(move || {
                    let base = Pos::from_fen(fen).unwrap();
                    for h in 0..=150u32 {
                        if h % 5 != part {
                            continue;
                        }
                        for f in 1..=6000u32 {
                            let mut v = base.clone();
                            v.halfmove = h;
                            v.fullmove = f;
                            full_grid.fetch_add(1, Ordering::Relaxed);
                            check_string(sink, &v.fen(), &format!("fullgrid{bi}|{h}|{f}"), false, c);
                        }
                    }
                });
            }
        }
    });
    let strings = c.strings.load(Ordering::Relaxed);
    let bases = c.bases.load(Ordering::Relaxed);
    let sample = Pos::from_fen(seeds::KIWIPETE).unwrap();
    let mut sv = sample.clone();
    sv.castle = [true, false, false, true];
    sv.halfmove = 99;
    sv.fullmove = 5999;
    let cov = Coverage {
        states: strings,
        transitions: strings + c.bisim_nodes.load(Ordering::Relaxed),
        traces: strings,
        samples: vec![
            s(sv.fen()),
            s(sample.fen4()),
            s("4k3/8/8/2pPp3/8/8/8/4K3 w - e6 0 2"),
        ],
        exhaustive: None,
        extra: vec![
            ("base_positions".into(), i(bases)),
            ("base_positions_distinct".into(), i(out.distinct_states)),
            ("fen_strings_parsed".into(), i(strings)),
            ("castling_subset_variants".into(), i(c.castle_variants.load(Ordering::Relaxed))),
            ("en_passant_variants".into(), i(c.ep_variants.load(Ordering::Relaxed))),
            ("clock_boundary_variants".into(), i(c.clock_variants.load(Ordering::Relaxed))),
            ("full_clock_grid_strings".into(), i(full_grid.load(Ordering::Relaxed))),
            ("full_clock_grid_exhaustive".into(), J::Bool(full_grid.load(Ordering::Relaxed) == 3 * 151 * 6000)),
            ("loaded_positions_with_legal_move_set_checked".into(), i(c.legal_checked.load(Ordering::Relaxed))),
            ("bisimulation_nodes".into(), i(c.bisim_nodes.load(Ordering::Relaxed))),
            ("completed_depth_per_seed".into(), explore::per_seed_json(&out)),
            ("rule".into(), s("states = FEN strings loaded by Board::from_fen and compared field by field with the oracle's independent reader; per base position: 6/4-field, all castling subsets consistent with king/rook placement, all valid en-passant squares for either side + none, 10x10 clock boundary grid; transitions additionally count the played-vs-loaded bisimulation nodes")),
        ],
        assumptions: vec![
            "only valid FEN strings are generated (the property assumes validity); validity of en-passant squares = enemy pawn on its fourth rank with both squares behind it empty".into(),
            "the reference FEN reader is part of the oracle and is itself validated through the perft self-check (it opens every perft position)".into(),
        ],
    };
    report::finish(&sink, cov)
}

pub fn replay(doc: &J) -> i32 {
    let Some(r) = doc.get("replay") else { return 2 };
    let fen = r.get("fen").and_then(|x| x.str()).unwrap_or("");
    let sink = Sink::new("C07", "quick");
    let c = Counters {
        strings: AtomicU64::new(0),
        bases: AtomicU64::new(0),
        castle_variants: AtomicU64::new(0),
        ep_variants: AtomicU64::new(0),
        clock_variants: AtomicU64::new(0),
        bisim_nodes: AtomicU64::new(0),
        legal_checked: AtomicU64::new(0),
    };
    let legal = Pos::from_fen(fen).map(|p| !p.in_check(!p.white)).unwrap_or(false);
    for _ in 0..2 {
        check_string(&sink, fen, "replay", legal, &c);
    }
    let n = sink.count();
    for v in sink.take() {
        println!("  {}", v.what);
    }
    if n % 2 != 0 {
        eprintln!("MACHINERY: replay not reproducible");
        return 2;
    }
    if n > 0 {
        1
    } else {
        0
    }
}
