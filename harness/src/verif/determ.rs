//! C16: a fixed-depth search from an empty cache is deterministic.
//! The (position, depth) grid is enumerated completely; each pair is searched twice in one
//! process (cache emptied in between) and in three different worker processes that run
//! concurrently with 13 busy siblings; the `bench` subcommand of the real executable is run
//! several times concurrently and its node total must also equal the sum of the separately
//! computed fresh-cache node counts of its positions.
//! Hash seeds and OS scheduling cannot be enumerated: those two dimensions are SAMPLED.

use super::report::{self, i, obj, s, Coverage, Sink, J};
use super::searchrun::{self, Case, Cut, Limits, Opts};
use super::spos::{self, P9};
use super::workers::{self, Worker};
use super::Args;
use std::collections::BTreeMap;

fn triple(fen: &str, history: &[String], depth: u8) -> Option<String> {
    triple_pv(fen, history, depth).map(|x| x.0)
}

/// The same search started the way `Uci::go` starts it for `go depth N`: the depth is ALSO in the
/// limits (bench and direct callers pass it as the iteration bound only).
fn triple_as_go(fen: &str, history: &[String], depth: u8) -> Option<String> {
    let (board, _, _) = searchrun::open(fen, history).ok()?;
    let case = Case {
        fen: fen.to_string(),
        history: history.to_vec(),
        limits: Limits { depth: Some(u128::from(depth)), ..Default::default() },
        max_depth: Some(depth),
        cut: Cut::None,
        elapsed_ms: None,
    };
    let out = searchrun::run(&board, &case, &Opts { clear_cache: true, observe: false, neutral: false });
    Some(match out.panicked {
        Some(p) => format!("panic:{p}"),
        None => format!("{} {} {}", out.best.unwrap_or_else(|| "-".into()), out.score.map_or("-".into(), |x| x.to_string()), out.nodes),
    })
}

/// (best move, score, nodes) of a search from an emptied cache, and the principal variation of
/// its last iteration report
fn triple_pv(fen: &str, history: &[String], depth: u8) -> Option<(String, Vec<String>)> {
    let (board, _, _) = searchrun::open(fen, history).ok()?;
    let case = Case {
        fen: fen.to_string(),
        history: history.to_vec(),
        limits: Limits::default(),
        max_depth: Some(depth),
        cut: Cut::None, elapsed_ms: None,
    };
    let out = searchrun::run(&board, &case, &Opts { clear_cache: true, observe: false, neutral: false });
    let pv: Vec<String> = out
        .log
        .iter()
        .rev()
        .find(|l| l.starts_with("info") && l.contains(" pv "))
        .and_then(|l| l.split(" pv ").nth(1).map(|t| t.split_whitespace().map(str::to_string).collect()))
        .unwrap_or_default();
    Some((
        match out.panicked {
            Some(p) => format!("panic:{p}"),
            None => format!("{} {} {}", out.best.unwrap_or_else(|| "-".into()), out.score.map_or("-".into(), |x| x.to_string()), out.nodes),
        },
        pv,
    ))
}

fn grid(tier: &str) -> Vec<(String, Vec<String>, u8)> {
    let thorough = tier == "thorough";
    let mut v = vec![];
    for p in P9.iter() {
        let dense = matches!(p.name, "kiwipete" | "black-to-move" | "perft4" | "perft5" | "perft6" | "bench03" | "bench-ep" | "kiwipete+kingwalk" | "hanging-queen" | "start" | "start+shuffle");
        let maxd = match (thorough, dense) {
            (false, true) => 3,
            (false, false) => 4,
            (true, true) => 5,
            (true, false) => 6,
        };
        for d in 1..=maxd {
            v.push((p.fen.to_string(), spos::hist(p), d));
        }
    }
    v
}

fn bench_fens() -> Vec<String> {
    include_str!("bench_fens.txt").lines().map(|l| l.trim().to_string()).filter(|l| !l.is_empty()).collect()
}

pub fn worker(args: &Args, w: &Worker) -> i32 {
    searchrun::quiet_panics();
    let g = grid(&args.tier);
    let n = w.nshards;
    // one deliberately LARGE search per process, at a shard-dependent place in the sequence: for
    // every pair some processes search it before their large search and others after it, so state
    // that survives "emptying the cache" (capacity, counters, killers, ...) shows up as a
    // cross-process difference
    let big_at = (w.shard * g.len()) / n.max(1);
    // process preamble: the FIRST search of a process differs by shard parity (a tactical position
    // with White to move / with Black to move, depth 2). The three owners of every pair have both
    // parities among them, so anything a process freezes at first use (lazily built tables,
    // once-cells) shows up as a cross-process difference.
    let preamble = if w.shard % 2 == 0 { "r3k2r/p1ppqpb1/bn2pnp1/3PN3/1p2P3/2N2Q1p/PPPBBPPP/R3K2R w KQkq - 0 1" } else { "r3k2r/p1ppqpb1/bn2pnp1/3PN3/1p2P3/2N2Q1p/PPPBBPPP/R3K2R b KQkq - 0 1" };
    let _ = triple(preamble, &[], 2);
    w.count("process_preamble_searches", 1);
    for (k, (fen, hist, d)) in g.iter().enumerate() {
        if k == big_at {
            // ~0.55 M cache entries (quick) / ~3.2 M (thorough): far beyond any 1-16 MB budget
            let _ = triple("8/2p5/3p4/KP5r/1R3p1k/8/4P1P1/8 w - - 0 1", &[], if args.tier == "thorough" { 13 } else { 11 });
            w.count("large_searches", 1);
        }
        // every pair is searched by three different processes
        let owners = [k % n, (k + 5) % n, (k + 11) % n];
        if !owners.contains(&w.shard) {
            continue;
        }
        let Some((a, pv)) = triple_pv(fen, hist, *d) else { continue };
        // predecessor alphabet: a position one and two plies down the principal variation of the
        // search just finished is searched right after it (predecessor: its ancestor's search) and
        // once more (predecessor: its own search); both start from an emptied cache and must agree
        if *d <= 4 && w.shard == k % n {
            for plies in 1..=pv.len().min(2) {
                let mut h2 = hist.clone();
                h2.extend(pv[..plies].iter().cloned());
                let Ok((_, pos2, _)) = searchrun::open(fen, &h2) else { continue };
                if pos2.legal_moves().is_empty() {
                    continue;
                }
                if plies > 1 {
                    let _ = triple(fen, hist, *d); // the ancestor's search is the immediate predecessor
                }
                let Some(r1) = triple(fen, &h2, *d) else { continue };
                let Some(r2) = triple(fen, &h2, *d) else { continue };
                w.count("searches", 2);
                w.count("searches_after_a_search_of_an_ancestor", 1);
                if r1 != r2 {
                    w.violation(
                        &format!("{fen}|{}|d{d}|after-ancestor", h2.join(",")),
                        &format!("{fen} [{}] depth {d} from an emptied cache: ({r1}) right after a search of the position {plies} plies earlier, ({r2}) when searched again", h2.join(" ")),
                        &obj(vec![("kind", s("determinism")), ("fen", s(fen.clone())), ("history", report::arr_s(&h2)), ("depth", i(*d)), ("after_ancestor_plies", i(plies as u64))]),
                    );
                }
            }
        }
        let Some(a2) = triple(fen, hist, *d) else { continue };
        let a = if a == a2 { a } else {
            w.violation(
                &format!("{fen}|{}|d{d}|after-descendant", hist.join(",")),
                &format!("{fen} [{}] depth {d}: ({a}) at first, ({a2}) after searches of other positions in the same process, both from an emptied cache", hist.join(" ")),
                &obj(vec![("kind", s("determinism")), ("fen", s(fen.clone())), ("history", report::arr_s(hist)), ("depth", i(*d))]),
            );
            a
        };
        let Some(b) = triple(fen, hist, *d) else { continue };
        w.count("searches", 3);
        // the caller must not matter: `go depth N` (depth also in the limits) against the bench-style call
        if let Some(g) = triple_as_go(fen, hist, *d) {
            w.count("searches", 1);
            w.count("searches_started_as_go_depth", 1);
            if g != a {
                w.violation(
                    &format!("{fen}|{}|d{d}|caller", hist.join(",")),
                    &format!("{fen} [{}] depth {d} from an emptied cache: ({a}) when the depth is passed as the iteration bound only (bench), ({g}) when it is also in the limits (go depth {d})", hist.join(" ")),
                    &obj(vec![("kind", s("determinism")), ("fen", s(fen.clone())), ("history", report::arr_s(hist)), ("depth", i(*d)), ("as_go", J::Bool(true))]),
                );
            }
        }
        if a != b {
            w.violation(
                &format!("{fen}|{}|d{d}|same-process", hist.join(",")),
                &format!("{fen} [{}] depth {d}: two searches from an empty cache in one process give ({a}) and ({b})", hist.join(" ")),
                &obj(vec![("kind", s("determinism")), ("fen", s(fen.clone())), ("history", report::arr_s(hist)), ("depth", i(*d))]),
            );
        }
        w.info(&format!("t:{k}:{}", w.shard), &a);
    }
    // fresh-cache node counts of the bench positions at the bench depth (6)
    for (k, fen) in bench_fens().iter().enumerate() {
        if !w.mine(k) {
            continue;
        }
        // the predecessor alphabet on the bench positions as well (depth 4: principal variations
        // of three and more plies)
        if let Some((_, pv)) = triple_pv(fen, &[], 4) {
            for plies in 1..=pv.len().min(2) {
                let h2: Vec<String> = pv[..plies].to_vec();
                let Ok((_, pos2, _)) = searchrun::open(fen, &h2) else { continue };
                if pos2.legal_moves().is_empty() {
                    continue;
                }
                if plies > 1 {
                    let _ = triple(fen, &[], 4); // the ancestor's search is the immediate predecessor
                }
                let Some(r1) = triple(fen, &h2, 4) else { continue };
                let Some(r2) = triple(fen, &h2, 4) else { continue };
                w.count("searches", 2);
                w.count("searches_after_a_search_of_an_ancestor", 1);
                if r1 != r2 {
                    w.violation(
                        &format!("{fen}|{}|d4|after-ancestor", h2.join(",")),
                        &format!("{fen} [{}] depth 4 from an emptied cache: ({r1}) right after a search of the position {plies} plies earlier, ({r2}) when searched again", h2.join(" ")),
                        &obj(vec![("kind", s("determinism")), ("fen", s(fen.clone())), ("history", report::arr_s(&h2)), ("depth", i(4)), ("after_ancestor_plies", i(plies as u64))]),
                    );
                }
            }
        }
        if let Some(t) = triple(fen, &[], 6) {
            let nodes: u64 = t.split(' ').nth(2).and_then(|x| x.parse().ok()).unwrap_or(0);
            w.count("bench_position_nodes", nodes);
            w.count("bench_positions", 1);
        }
    }
    w.done()
}

fn shim_path() -> Option<std::path::PathBuf> {
    let p = report::verif_root().join(".target/fastclock.so");
    p.exists().then_some(p)
}

/// `fast`: under the LD_PRELOAD clock shim the monotonic clock runs 200x faster, so anything in
/// the fixed-depth bench that looks at the wall clock behaves as on a 200x slower machine.
fn run_bench_with(fast: bool) -> Result<u64, String> {
    let mut cmd = std::process::Command::new(super::uciproc::engine_path());
    cmd.arg("bench");
    if fast {
        if let Some(p) = shim_path() {
            cmd.env("LD_PRELOAD", p).env("RCE_VERIF_CLOCK_FACTOR", "200");
        }
    }
    let out = cmd.output().map_err(|e| e.to_string())?;
    let text = String::from_utf8_lossy(&out.stdout);
    for l in text.lines() {
        if let Some(n) = l.strip_suffix(" nodes") {
            if let Ok(v) = n.trim().parse::<u64>() {
                return Ok(v);
            }
        }
    }
    Err(format!("bench printed no node total (exit {:?})", out.status.code()))
}

/// `go depth 6` on a middlegame position in a fresh process whose address space is capped at
/// `cap_kb` (None: no cap). Some((best, nodes of the last report)) if the search finished; None if
/// the process died (a process that cannot get memory may die - it may not answer differently).
fn capped_search(cap_kb: Option<u64>) -> Option<(String, String)> {
    use std::io::Write;
    let exe = super::uciproc::engine_path();
    let script = match cap_kb {
        Some(k) => format!("ulimit -v {k}; exec '{}'", exe.display()),
        None => format!("exec '{}'", exe.display()),
    };
    let mut child = std::process::Command::new("sh")
        .arg("-c")
        .arg(script)
        .stdin(std::process::Stdio::piped())
        .stdout(std::process::Stdio::piped())
        .stderr(std::process::Stdio::null())
        .spawn()
        .ok()?;
    {
        let mut si = child.stdin.take()?;
        let _ = si.write_all(b"position fen r3k2r/p1ppqpb1/bn2pnp1/3PN3/1p2P3/2N2Q1p/PPPBBPPP/R3K2R w KQkq - 0 1\ngo depth 6\n");
        // the engine answers when the depth is reached; quit follows once the answer is there or the process is gone
        let out = child.stdout.take()?;
        let mut best = None;
        let mut nodes = String::new();
        for l in std::io::BufRead::lines(std::io::BufReader::new(out)).map_while(Result::ok) {
            if l.starts_with("info depth") {
                let t: Vec<&str> = l.split_whitespace().collect();
                if let Some(k) = t.iter().position(|x| *x == "nodes") {
                    nodes = t.get(k + 1).copied().unwrap_or("").to_string();
                }
            }
            if let Some(m) = l.strip_prefix("bestmove ") {
                best = Some(m.trim().to_string());
                break;
            }
        }
        let _ = si.write_all(b"quit\n");
        drop(si);
        let _ = child.wait();
        best.map(|b| (b, nodes))
    }
}

fn run_bench() -> Result<u64, String> {
    run_bench_with(false)
}

pub fn run(args: &Args) -> i32 {
    let thorough = args.tier == "thorough";
    let sink = Sink::new("C16", &args.tier);
    // the bench runs compete with the workers for the CPUs: that is the load
    let nbench = if thorough { 4 } else { 2 };
    // the last bench run is executed under the accelerated clock (if the shim could be built)
    let shim = shim_path().is_some();
    let benches: Vec<std::thread::JoinHandle<Result<u64, String>>> = (0..nbench).map(|k| std::thread::spawn(move || run_bench_with(shim && k == nbench - 1))).collect();
    let merged = match workers::fan_out("C16", &args.tier, &sink, &[]) {
        Ok(m) => m,
        Err(e) => {
            eprintln!("MACHINERY: {e}");
            return 2;
        }
    };
    let g = grid(&args.tier);
    let mut by_pair: BTreeMap<usize, Vec<(String, String)>> = BTreeMap::new();
    for (k, v) in &merged.infos {
        if let Some(rest) = k.strip_prefix("t:") {
            if let Some((pair, shard)) = rest.split_once(':') {
                if let Ok(p) = pair.parse::<usize>() {
                    by_pair.entry(p).or_default().push((shard.to_string(), v.clone()));
                }
            }
        }
    }
    let mut compared = 0u64;
    let mut procs = 0u64;
    for (p, vals) in &by_pair {
        compared += 1;
        procs += vals.len() as u64;
        if vals.iter().any(|(_, t)| *t != vals[0].1) {
            let (fen, hist, d) = &g[*p];
            sink.report(
                format!("{fen}|{}|d{d}|processes", hist.join(",")),
                format!("{fen} [{}] depth {d}: different processes give different results: {:?}", hist.join(" "), vals),
                obj(vec![("kind", s("determinism")), ("fen", s(fen.clone())), ("history", report::arr_s(hist)), ("depth", i(*d))]),
            );
        }
    }
    let mut totals = vec![];
    for b in benches {
        match b.join().unwrap() {
            Ok(n) => totals.push(n),
            Err(e) => {
                eprintln!("MACHINERY: {e}");
                return 2;
            }
        }
    }
    if totals.iter().any(|t| *t != totals[0]) {
        sink.report(
            "bench|runs".into(),
            format!("concurrent runs of the bench subcommand print different node totals: {totals:?}{}", if shim { " (the last run had its monotonic clock accelerated 200x)" } else { "" }),
            obj(vec![("kind", s("bench"))]),
        );
    }
    // the environment as an input: the same search in processes with less and less memory. A
    // process may die; one that answers must answer exactly like the uncapped one.
    let mut capped_runs = 0u64;
    let mut capped_answers = 0u64;
    if let Some(free) = capped_search(None) {
        let caps: Vec<u64> = (0..24).map(|k| 6_000 + 500 * k).collect();
        let results: Vec<(u64, Option<(String, String)>)> = std::thread::scope(|sc| {
            let hs: Vec<_> = caps.iter().map(|c| sc.spawn(move || (*c, capped_search(Some(*c))))).collect();
            hs.into_iter().map(|h| h.join().unwrap()).collect()
        });
        for (cap, r) in results {
            capped_runs += 1;
            if let Some(r) = r {
                capped_answers += 1;
                if r != free {
                    sink.report(
                        "memcap".into(),
                        format!("'go depth 6' on kiwipete in a process with its address space capped at {cap} kB answers ({} {} nodes), without the cap ({} {} nodes)", r.0, r.1, free.0, free.1),
                        obj(vec![("kind", s("memcap")), ("cap_kb", i(cap))]),
                    );
                    break;
                }
            }
        }
    }
    let sum = merged.get("bench_position_nodes");
    if merged.get("bench_positions") as usize == bench_fens().len() && totals.first().is_some_and(|t| *t != sum) {
        sink.report(
            "bench|sum".into(),
            format!("bench prints {} nodes but its {} positions searched one by one from an empty cache to depth 6 need {sum} nodes", totals[0], bench_fens().len()),
            obj(vec![("kind", s("bench"))]),
        );
    }
    let sample = by_pair.iter().next().map(|(p, v)| obj(vec![("fen", s(g[*p].0.clone())), ("depth", i(g[*p].2)), ("results_by_process", J::Arr(v.iter().map(|(sh, t)| s(format!("shard {sh}: {t}"))).collect()))]));
    let cov = Coverage {
        states: compared.max(1),
        transitions: merged.get("searches").max(1),
        traces: merged.get("searches") + totals.len() as u64,
        samples: vec![sample.unwrap_or(s("none")), obj(vec![("bench_node_totals", J::Arr(totals.iter().map(|t| i(*t)).collect())), ("sum_of_fresh_cache_searches", i(sum))])],
        exhaustive: None,
        extra: vec![
            ("position_depth_pairs".into(), i(compared)),
            ("process_results_compared".into(), i(procs)),
            ("searches".into(), i(merged.get("searches"))),
            ("searches_right_after_a_search_of_an_ancestor_position".into(), i(merged.get("searches_after_a_search_of_an_ancestor"))),
            ("process_preamble_searches_white_or_black_first_by_process".into(), i(merged.get("process_preamble_searches"))),
            ("bench_runs".into(), i(totals.len() as u64)),
            ("memory_capped_processes".into(), i(capped_runs)),
            ("memory_capped_processes_that_answered".into(), i(capped_answers)),
            ("bench_run_under_200x_clock".into(), J::Bool(shim)),
            ("bench_positions_recomputed".into(), i(merged.get("bench_positions"))),
            ("sampled_dimensions".into(), s("hash seeds of std containers and OS scheduling: 3 processes per pair under full CPU load; these two dimensions are sampled, everything else is enumerated")),
        ],
        assumptions: vec!["the check can refute determinism but supports it only for the causes it exercises: state leaking between searches, clock-dependent decisions, iteration order of randomly seeded containers on the sampled seeds".into()],
    };
    report::finish(&sink, cov)
}

pub fn replay(doc: &J) -> i32 {
    let Some(r) = doc.get("replay") else { return 2 };
    if r.get("kind").and_then(|x| x.str()) == Some("memcap") {
        let cap = r.get("cap_kb").and_then(|x| x.int()).unwrap_or(9000) as u64;
        let free = capped_search(None);
        let capped = capped_search(Some(cap));
        println!("uncapped: {free:?}; capped at {cap} kB: {capped:?}");
        return i32::from(capped.is_some() && capped != free);
    }
    if r.get("kind").and_then(|x| x.str()) == Some("bench") {
        let a = run_bench();
        let b = run_bench_with(true);
        println!("bench totals: {a:?} {b:?}");
        return if a == b { 0 } else { 1 };
    }
    let fen = r.get("fen").and_then(|x| x.str()).unwrap_or("").to_string();
    let hist = r.get("history").map(|x| x.str_list()).unwrap_or_default();
    let d = r.get("depth").and_then(|x| x.int()).unwrap_or(1) as u8;
    searchrun::quiet_panics();
    if let Some(plies) = r.get("after_ancestor_plies").and_then(|x| x.int()) {
        let up = hist.len().saturating_sub(plies as usize);
        let mut verdicts = vec![];
        for _ in 0..2 {
            let _ = triple(&fen, &hist[..up], d);
            let r1 = triple(&fen, &hist, d);
            let r2 = triple(&fen, &hist, d);
            println!("after the ancestor's search: {r1:?}; searched again: {r2:?}");
            verdicts.push(r1 != r2);
        }
        if verdicts[0] != verdicts[1] {
            eprintln!("MACHINERY: replay not reproducible");
            return 2;
        }
        return i32::from(verdicts[0]);
    }
    if r.get("as_go").is_some() {
        let a = triple(&fen, &hist, d);
        let g = triple_as_go(&fen, &hist, d);
        println!("bench-style: {a:?}; go-style: {g:?}");
        return i32::from(a != g);
    }
    let v: Vec<Option<String>> = (0..4).map(|_| triple(&fen, &hist, d)).collect();
    println!("{v:?}");
    if v.iter().any(|x| *x != v[0]) {
        println!("violation reproduced");
        1
    } else {
        println!("no difference within one process (cross-process differences need ./check C16)");
        0
    }
}
