//! Position-space explorer: explicit-state, depth-first exploration of the engine's REAL
//! transition function (`make_move` / `unmake_move` on one live `Board` per worker) with the
//! oracle advanced in lock-step. Bound = depth per seed, iterated 1, 2, 3, ... until the
//! tier's per-seed node budget would be exceeded; only completed depths are reported.

use super::eng;
use super::oracle::{Ident, Mv, Pos};
use super::report::{arr_s, obj, s, Sink, J};
use super::seeds::{Class, Seed};
use crate::board::zkey::ZKey;
use crate::board::{Board, Ply};
use std::collections::{HashMap, HashSet};
use std::sync::atomic::{AtomicU64, AtomicUsize, Ordering};
use std::sync::Mutex;

#[derive(Clone, Copy, PartialEq, Eq, Debug)]
pub enum Prop {
    C01,
    C02,
    C03,
    C04,
    C05,
    Collect,
}

#[derive(Default, Clone, Debug)]
pub struct Stats {
    pub nodes: u64,
    pub transitions: u64,
    pub leaves: u64,
    pub castles: u64,
    pub ep_captures: u64,
    pub promotions: u64,
    pub promo_captures: u64,
    pub double_pushes: u64,
    pub regenerated_after_unmake: u64,
    pub record_probes: u64,
    pub checks: u64,
    pub double_checks: u64,
    pub mates: u64,
    pub stalemates: u64,
    pub repeated: u64,
    pub rook_capture_revokes: u64,
    pub unpaired: u64,
    pub perturbed_positions: u64,
    pub perturbations: u64,
}

impl Stats {
    pub fn add(&mut self, o: &Stats) {
        self.nodes += o.nodes;
        self.transitions += o.transitions;
        self.leaves += o.leaves;
        self.castles += o.castles;
        self.ep_captures += o.ep_captures;
        self.promotions += o.promotions;
        self.promo_captures += o.promo_captures;
        self.double_pushes += o.double_pushes;
        self.regenerated_after_unmake += o.regenerated_after_unmake;
        self.record_probes += o.record_probes;
        self.checks += o.checks;
        self.double_checks += o.double_checks;
        self.mates += o.mates;
        self.stalemates += o.stalemates;
        self.repeated += o.repeated;
        self.rook_capture_revokes += o.rook_capture_revokes;
        self.unpaired += o.unpaired;
        self.perturbed_positions += o.perturbed_positions;
        self.perturbations += o.perturbations;
    }
    pub fn json(&self) -> J {
        obj(vec![
            ("nodes_visited", super::report::i(self.nodes)),
            ("castles", super::report::i(self.castles)),
            ("en_passant_captures", super::report::i(self.ep_captures)),
            ("promotions", super::report::i(self.promotions)),
            ("promotion_captures", super::report::i(self.promo_captures)),
            ("double_pushes", super::report::i(self.double_pushes)),
            ("move_lists_regenerated_after_unmake", super::report::i(self.regenerated_after_unmake)),
            ("repetition_record_probes", super::report::i(self.record_probes)),
            ("positions_in_check", super::report::i(self.checks)),
            ("double_checks", super::report::i(self.double_checks)),
            ("checkmates", super::report::i(self.mates)),
            ("stalemates", super::report::i(self.stalemates)),
            ("positions_repeating_an_earlier_one", super::report::i(self.repeated)),
            ("rights_revoked_by_rook_capture", super::report::i(self.rook_capture_revokes)),
            ("oracle_moves_without_engine_counterpart", super::report::i(self.unpaired)),
        ])
    }
}

const SHARDS: usize = 256;

pub struct Tables {
    fingerprints: Vec<Mutex<HashSet<u64>>>,
    ident_to_key: Vec<Mutex<HashMap<Ident, u64>>>,
    key_to_ident: Vec<Mutex<HashMap<u64, Ident>>>,
    pub cap: usize,
    pub size: AtomicUsize,
    pub capped: std::sync::atomic::AtomicBool,
}

fn fp(id: &Ident) -> u64 {
    // FNV-1a 64 over the identity bytes, then a finaliser
    let mut h: u64 = 0xcbf29ce484222325;
    for b in id.0.iter() {
        h ^= u64::from(*b);
        h = h.wrapping_mul(0x100000001b3);
    }
    h ^= h >> 29;
    h = h.wrapping_mul(0xbf58476d1ce4e5b9);
    h ^ (h >> 32)
}

impl Tables {
    pub fn new(cap: usize) -> Tables {
        Tables {
            fingerprints: (0..SHARDS).map(|_| Mutex::new(HashSet::new())).collect(),
            ident_to_key: (0..SHARDS).map(|_| Mutex::new(HashMap::new())).collect(),
            key_to_ident: (0..SHARDS).map(|_| Mutex::new(HashMap::new())).collect(),
            cap,
            size: AtomicUsize::new(0),
            capped: std::sync::atomic::AtomicBool::new(false),
        }
    }
    fn room(&self) -> bool {
        if self.size.load(Ordering::Relaxed) >= self.cap {
            self.capped.store(true, Ordering::Relaxed);
            false
        } else {
            true
        }
    }
    pub fn note_state(&self, id: &Ident) {
        let h = fp(id);
        let mut g = self.fingerprints[(h as usize) % SHARDS].lock().unwrap();
        g.insert(h);
    }
    pub fn distinct_states(&self) -> u64 {
        self.fingerprints.iter().map(|m| m.lock().unwrap().len() as u64).sum()
    }
    /// C04: returns the previously recorded key if it differs
    pub fn ident_key(&self, id: &Ident, key: u64) -> Option<u64> {
        let h = fp(id);
        let mut g = self.ident_to_key[(h as usize) % SHARDS].lock().unwrap();
        if let Some(k) = g.get(id) {
            if *k != key {
                return Some(*k);
            }
            return None;
        }
        if self.room() {
            g.insert(*id, key);
            self.size.fetch_add(1, Ordering::Relaxed);
        }
        None
    }
    /// C05: returns a different identity already recorded under this key
    pub fn key_ident(&self, key: u64, id: &Ident) -> Option<Ident> {
        let mut g = self.key_to_ident[(key as usize) % SHARDS].lock().unwrap();
        if let Some(o) = g.get(&key) {
            if o != id {
                return Some(*o);
            }
            return None;
        }
        if self.room() {
            g.insert(key, *id);
            self.size.fetch_add(1, Ordering::Relaxed);
        }
        None
    }
    pub fn table_entries(&self) -> usize {
        self.size.load(Ordering::Relaxed)
    }
}

pub type Collector<'a> = dyn Fn(&mut Board, &Pos, &PathRef, &mut Stats) + Sync + 'a;

pub struct Walk<'a> {
    pub prop: Prop,
    pub sink: &'a Sink,
    pub tables: Tables,
    pub collect: Option<&'a Collector<'a>>,
    /// C05: number of positions (per seed) that get the full perturbation alphabet
    pub perturb_per_seed: u64,
    pub perturb_insert: bool,
}

pub struct PathRef<'a> {
    pub seed: &'a Seed,
    pub moves: &'a [String],
    pub depth_left: u32,
}

impl PathRef<'_> {
    pub fn replay(&self, extra: Vec<(&str, J)>) -> J {
        let mut v = vec![
            ("kind", s("path")),
            ("seed", s(self.seed.name.clone())),
            ("fen", s(self.seed.fen.clone())),
            ("prefix", arr_s(&self.seed.prefix)),
            ("moves", arr_s(self.moves)),
        ];
        v.extend(extra);
        obj(v)
    }
    pub fn sig(&self, what: &str) -> String {
        format!("{}|{}|{}|{}", self.seed.name, self.seed.prefix.join(","), self.moves.join(","), what)
    }
}

struct Cursor<'a> {
    seed: &'a Seed,
    board: Board,
    moves: Vec<String>,
    /// engine key and oracle identity of every EARLIER position of the game (since the FEN)
    path_keys: Vec<u64>,
    path_idents: Vec<Ident>,
    stats: Stats,
    perturbed: u64,
}

pub struct Task {
    pub seed_idx: usize,
    pub moves: Vec<String>,
    pub depth: u32,
}

/// Builds the engine board and the oracle position of a seed (FEN + prefix moves), recording
/// the earlier positions. A prefix move the oracle does not allow is a machinery error.
pub fn open_seed(seed: &Seed) -> Result<(Board, Pos, Vec<u64>, Vec<Ident>), String> {
    let mut pos = Pos::from_fen(&seed.fen)?;
    if pos.king_sq(true).is_none() || pos.king_sq(false).is_none() || pos.in_check(!pos.white) {
        return Err(format!("seed {} is not a legal position", seed.name));
    }
    let mut board = if seed.fen == super::seeds::START && seed.name.ends_with("builder") {
        eng::startpos()
    } else {
        Board::from_fen(&seed.fen)
    };
    let mut keys = Vec::new();
    let mut ids = Vec::new();
    for mv in &seed.prefix {
        let om = pos
            .legal_moves()
            .into_iter()
            .find(|m| m.uci() == *mv)
            .ok_or_else(|| format!("seed {}: prefix move {mv} is not legal in the oracle", seed.name))?;
        let ply = eng::legal(&mut board)
            .into_iter()
            .find(|(d, _)| *d == om)
            .map(|(_, p)| p)
            .ok_or_else(|| format!("seed {}: engine does not offer prefix move {mv}", seed.name))?;
        keys.push(eng::key(&board));
        ids.push(pos.ident());
        board.make_move(ply);
        pos = pos.make(&om);
    }
    Ok((board, pos, keys, ids))
}

impl<'a> Walk<'a> {
    fn cursor(&self, seed: &'a Seed, moves: &[String]) -> Result<(Cursor<'a>, Pos), String> {
        let (mut board, mut pos, mut keys, mut ids) = open_seed(seed)?;
        for mv in moves {
            let om = pos
                .legal_moves()
                .into_iter()
                .find(|m| m.uci() == *mv)
                .ok_or_else(|| format!("task path move {mv} not legal in oracle"))?;
            let ply = eng::legal(&mut board)
                .into_iter()
                .find(|(d, _)| *d == om)
                .map(|(_, p)| p)
                .ok_or_else(|| format!("task path move {mv} not offered by engine"))?;
            keys.push(eng::key(&board));
            ids.push(pos.ident());
            board.make_move(ply);
            pos = pos.make(&om);
        }
        Ok((
            Cursor {
                seed,
                board,
                moves: moves.to_vec(),
                path_keys: keys,
                path_idents: ids,
                stats: Stats::default(),
                perturbed: 0,
            },
            pos,
        ))
    }

    /// Walks the subtree of one task. With `emit` set, subtrees at `emit.0` plies below the
    /// task root are not walked but pushed as new tasks (phase A of a round).
    pub fn run_task(
        &self,
        seeds: &'a [Seed],
        task: &Task,
        emit: Option<(u32, &Mutex<Vec<Task>>)>,
    ) -> Result<Stats, String> {
        let seed = &seeds[task.seed_idx];
        let (mut cur, pos) = self.cursor(seed, &task.moves)?;
        if task.moves.is_empty() {
            // depth-0 state check of the seed itself (FEN load / prefix play vs oracle)
            self.state_checks(&mut cur, &pos, task.depth, true);
        }
        self.visit(&mut cur, &pos, task.depth, emit.map(|(d, q)| (task.depth - d.min(task.depth), q, task.seed_idx)));
        Ok(cur.stats)
    }

    fn pr<'b>(&self, cur: &'b Cursor<'a>, depth_left: u32) -> PathRef<'b> {
        PathRef {
            seed: cur.seed,
            moves: &cur.moves,
            depth_left,
        }
    }

    /// Checks on the state just reached (after a make, or at a seed root).
    fn state_checks(&self, cur: &mut Cursor<'a>, pos: &Pos, depth_left: u32, root: bool) {
        match self.prop {
            Prop::C03 => {
                let seen = eng::observe(&cur.board);
                if seen != *pos {
                    let p = self.pr(cur, depth_left);
                    self.sink.report(
                        p.sig("state"),
                        format!(
                            "after {} [{}] + {:?}: {}",
                            cur.seed.fen,
                            cur.seed.prefix.join(" "),
                            cur.moves,
                            eng::diff(&seen, pos)
                        ),
                        p.replay(vec![("expect_fen", s(pos.fen()))]),
                    );
                }
                // remembered positions == exactly the earlier positions of this game
                let mut want: Vec<u64> = cur.path_keys.clone();
                want.sort_unstable();
                want.dedup();
                let mut got = cur.board.rce_verif_position_keys();
                got.dedup();
                if got != want {
                    let p = self.pr(cur, depth_left);
                    self.sink.report(
                        p.sig("memory"),
                        format!(
                            "remembered positions differ from the earlier positions of the game after {} [{}] + {:?}: engine remembers {} keys, game has {} distinct earlier positions",
                            cur.seed.fen,
                            cur.seed.prefix.join(" "),
                            cur.moves,
                            got.len(),
                            want.len()
                        ),
                        p.replay(vec![]),
                    );
                }
                // and position_reached() answers accordingly for every earlier key
                let _ = root;
            }
            Prop::C04 => {
                let k = eng::key(&cur.board);
                let scratch = ZKey::from(&cur.board).rce_verif_u64();
                if k != scratch {
                    let p = self.pr(cur, depth_left);
                    self.sink.report(
                        p.sig("incr-vs-scratch"),
                        format!("incremental key {k} != from-scratch key {scratch} after {:?} from {}", cur.moves, cur.seed.fen),
                        p.replay(vec![]),
                    );
                }
                let loaded = eng::key(&Board::from_fen(&pos.fen()));
                if k != loaded {
                    let p = self.pr(cur, depth_left);
                    self.sink.report(
                        p.sig("incr-vs-fen"),
                        format!("key {k} after play != key {loaded} of the same position loaded from FEN {}", pos.fen()),
                        p.replay(vec![("fen_of_position", s(pos.fen()))]),
                    );
                }
                if let Some(other) = self.tables.ident_key(&pos.ident(), k) {
                    let p = self.pr(cur, depth_left);
                    self.sink.report(
                        p.sig("path-dependent"),
                        format!("position {} has key {k} on this path but had key {other} on another path", pos.fen4()),
                        p.replay(vec![("fen_of_position", s(pos.fen()))]),
                    );
                }
            }
            Prop::C05 => {
                let k = eng::key(&cur.board);
                let id = pos.ident();
                if let Some(other) = self.tables.key_ident(k, &id) {
                    let p = self.pr(cur, depth_left);
                    self.sink.report(
                        p.sig("collision"),
                        format!("two different positions share key {k}: {} and identity {:?}", pos.fen4(), other.0),
                        p.replay(vec![("fen_of_position", s(pos.fen()))]),
                    );
                }
                if cur.perturbed < self.perturb_per_seed {
                    cur.perturbed += 1;
                    self.perturb(cur, pos, k, depth_left);
                }
            }
            _ => {}
        }
    }

    /// C05 (b): every single-component perturbation of the position must change the key.
    fn perturb(&self, cur: &mut Cursor<'a>, pos: &Pos, key: u64, depth_left: u32) {
        cur.stats.perturbed_positions += 1;
        let mut variants: Vec<(String, Pos)> = Vec::with_capacity(900);
        let mut v = pos.clone();
        v.white = !v.white;
        variants.push(("side to move".into(), v));
        for c in 0..4 {
            let mut v = pos.clone();
            v.castle[c] = !v.castle[c];
            variants.push((format!("castling right {}", ["K", "Q", "k", "q"][c]), v));
        }
        for f in 0..8u8 {
            if pos.ep_file != Some(f) {
                let mut v = pos.clone();
                v.ep_file = Some(f);
                variants.push((format!("en-passant file -> {}", (b'a' + f) as char), v));
            }
        }
        if pos.ep_file.is_some() {
            let mut v = pos.clone();
            v.ep_file = None;
            variants.push(("en-passant file -> none".into(), v));
        }
        for sq in 0..64usize {
            for pc in -6i8..=6 {
                if pc != pos.sq[sq] {
                    let mut v = pos.clone();
                    v.sq[sq] = pc;
                    variants.push((format!("square {} -> {}", super::oracle::sq_name(sq as u8), pc), v));
                }
            }
        }
        // C05 (c): the repetition record. One move is made from this position on the live board;
        // the record must then answer "reached" for this position's own key and "not reached" for
        // the key of every variant that is not itself an earlier position of the game - otherwise
        // the record confuses two distinct positions.
        let vkeys: Vec<ZKey> = variants.iter().map(|(_, v)| Board::from_fen(&v.fen()).zkey).collect();
        let own = cur.board.zkey;
        let first = eng::legal(&mut cur.board).first().map(|(_, ply)| *ply);
        if let Some(ply) = first {
            cur.board.make_move(ply);
            cur.stats.record_probes += 1;
            if !cur.board.position_reached(own) {
                let p = self.pr(cur, depth_left);
                self.sink.report(
                    "record|own-key-forgotten".into(),
                    format!("after a move from {} the repetition record does not answer 'reached' for that position's own key {key}", pos.fen4()),
                    p.replay(vec![("fen_of_position", s(pos.fen()))]),
                );
            }
            let here = pos.ident();
            for ((what, v), vkey) in variants.iter().zip(vkeys.iter()) {
                let vid = v.ident();
                if vid == here || cur.path_idents.iter().any(|x| *x == vid) {
                    continue;
                }
                cur.stats.record_probes += 1;
                if cur.board.position_reached(*vkey) {
                    let p = self.pr(cur, depth_left);
                    self.sink.report(
                        format!("record|{}", what.split(" ->").next().unwrap_or(what).split(' ').take(2).collect::<Vec<_>>().join(" ")),
                        format!("after a move from {} the repetition record answers 'reached' for the key of the different position {} ([{what}] changed), which never occurred in the game", pos.fen4(), v.fen4()),
                        p.replay(vec![("fen_of_position", s(pos.fen())), ("variant_fen", s(v.fen())), ("component", s(what.clone()))]),
                    );
                    break;
                }
            }
            cur.board.unmake_move();
        }
        for ((what, v), vkey) in variants.into_iter().zip(vkeys.into_iter()) {
            cur.stats.perturbations += 1;
            let vk = vkey.rce_verif_u64();
            if vk == key {
                let p = self.pr(cur, depth_left);
                // the signature names the component, not the position: one finding per component
                self.sink.report(
                    format!("perturb|{what}"),
                    format!("changing [{what}] of {} does not change the key ({key})", pos.fen4()),
                    p.replay(vec![("fen_of_position", s(pos.fen())), ("variant_fen", s(v.fen())), ("component", s(what.clone()))]),
                );
            } else if self.perturb_insert {
                if let Some(other) = self.tables.key_ident(vk, &v.ident()) {
                    let p = self.pr(cur, depth_left);
                    self.sink.report(
                        p.sig(&format!("variant-collision {what}")),
                        format!("variant {} collides with identity {:?} on key {vk}", v.fen4(), other.0),
                        p.replay(vec![("variant_fen", s(v.fen()))]),
                    );
                }
            }
        }
    }

    fn features(&self, st: &mut Stats, pos: &Pos, or_moves: &[Mv], cur: &Cursor) {
        let chk = pos.in_check(pos.white);
        if chk {
            st.checks += 1;
            if pos.checkers(pos.white) >= 2 {
                st.double_checks += 1;
            }
        }
        if or_moves.is_empty() {
            if chk {
                st.mates += 1;
            } else {
                st.stalemates += 1;
            }
        }
        let id = pos.ident();
        if cur.path_idents.iter().any(|x| *x == id) {
            st.repeated += 1;
        }
    }

    fn visit(&self, cur: &mut Cursor<'a>, pos: &Pos, depth_left: u32, emit: Option<(u32, &Mutex<Vec<Task>>, usize)>) {
        if let Some((emit_left, q, seed_idx)) = emit {
            if depth_left == emit_left && depth_left > 0 {
                // this subtree becomes a task of its own (it re-visits this node as its root)
                q.lock().unwrap().push(Task {
                    seed_idx,
                    moves: cur.moves.clone(),
                    depth: depth_left,
                });
                return;
            }
        }
        cur.stats.nodes += 1;
        self.tables.note_state(&pos.ident());
        let snapshot = if self.prop == Prop::C02 { Some(cur.board.clone()) } else { None };
        let eng_moves = eng::legal(&mut cur.board);
        let or_moves = pos.legal_moves();
        {
            let mut st = std::mem::take(&mut cur.stats);
            self.features(&mut st, pos, &or_moves, cur);
            cur.stats = st;
        }

        match self.prop {
            Prop::C01 => {
                let mut a: Vec<Mv> = eng_moves.iter().map(|(m, _)| *m).collect();
                let mut b: Vec<Mv> = or_moves.clone();
                a.sort();
                b.sort();
                if a != b {
                    let extra: Vec<String> = a.iter().filter(|m| !b.contains(m)).map(|m| format!("{}{:?}", m.uci(), m)).collect();
                    let missing: Vec<String> = b.iter().filter(|m| !a.contains(m)).map(|m| format!("{}{:?}", m.uci(), m)).collect();
                    let mut dups = vec![];
                    for w in a.windows(2) {
                        if w[0] == w[1] {
                            dups.push(w[0].uci());
                        }
                    }
                    let p = self.pr(cur, depth_left);
                    self.sink.report(
                        p.sig("moves"),
                        format!(
                            "legal moves differ at {} (after {:?} from seed {}): engine-only {:?}, missing {:?}, duplicates {:?}",
                            pos.fen(),
                            cur.moves,
                            cur.seed.name,
                            extra,
                            missing,
                            dups
                        ),
                        p.replay(vec![("fen_of_position", s(pos.fen()))]),
                    );
                }
                for white in [true, false] {
                    let e = eng::in_check(&cur.board, white);
                    let o = pos.in_check(white);
                    if e != o {
                        let p = self.pr(cur, depth_left);
                        self.sink.report(
                            p.sig(if white { "check-w" } else { "check-b" }),
                            format!("is_in_check({}) = {e} but the rules say {o} at {}", if white { "White" } else { "Black" }, pos.fen()),
                            p.replay(vec![("fen_of_position", s(pos.fen()))]),
                        );
                    }
                }
            }
            Prop::C02 => {
                let snap = snapshot.as_ref().unwrap();
                if cur.board != *snap {
                    let p = self.pr(cur, depth_left);
                    self.sink.report(
                        p.sig("query-mutates"),
                        format!("get_legal_moves() changed the position at {} (after {:?}, seed {} [{}])", pos.fen(), cur.moves, cur.seed.name, cur.seed.prefix.join(" ")),
                        p.replay(vec![("op", s("get_legal_moves"))]),
                    );
                    cur.board = snap.clone();
                }
                if let Some((m, _)) = eng_moves.first() {
                    let _ = cur.board.find_move(&m.uci());
                    if cur.board != *snap {
                        let p = self.pr(cur, depth_left);
                        self.sink.report(
                            p.sig("find-mutates"),
                            format!("find_move() changed the position at {}", pos.fen()),
                            p.replay(vec![("op", s("find_move"))]),
                        );
                        cur.board = snap.clone();
                    }
                }
            }
            Prop::Collect => {
                if let Some(c) = self.collect {
                    let p = PathRef {
                        seed: cur.seed,
                        moves: &cur.moves,
                        depth_left,
                    };
                    let mut st = std::mem::take(&mut cur.stats);
                    c(&mut cur.board, pos, &p, &mut st);
                    cur.stats = st;
                }
            }
            _ => {}
        }

        if depth_left == 0 {
            cur.stats.leaves += 1;
            return;
        }
        if or_moves.is_empty() {
            cur.stats.leaves += 1;
            return;
        }

        let key_here = eng::key(&cur.board);
        let id_here = pos.ident();
        for om in &or_moves {
            let Some((_, ply)) = eng_moves.iter().find(|(d, _)| d == om) else {
                cur.stats.unpaired += 1;
                continue;
            };
            let ply: Ply = *ply;
            let next = pos.make(om);
            cur.stats.transitions += 1;
            if om.castle {
                cur.stats.castles += 1;
            }
            if om.ep {
                cur.stats.ep_captures += 1;
            }
            if om.promo != 0 {
                cur.stats.promotions += 1;
                if om.captured != 0 {
                    cur.stats.promo_captures += 1;
                }
            }
            if om.double {
                cur.stats.double_pushes += 1;
            }
            if om.captured.abs() == 4 && matches!(om.to, 0 | 7 | 56 | 63) && next.castle != pos.castle && om.piece.abs() != 6 {
                cur.stats.rook_capture_revokes += 1;
            }

            cur.board.make_move(ply);
            cur.moves.push(om.uci());
            cur.path_keys.push(key_here);
            cur.path_idents.push(id_here);

            self.state_checks(cur, &next, depth_left - 1, false);
            self.visit(cur, &next, depth_left - 1, emit);

            cur.board.unmake_move();
            cur.moves.pop();
            cur.path_keys.pop();
            cur.path_idents.pop();

            match self.prop {
                Prop::C02 => {
                    let snap = snapshot.as_ref().unwrap();
                    if cur.board != *snap {
                        let seen = eng::observe(&cur.board);
                        let mut why = eng::diff(&seen, pos);
                        if why == "no difference" {
                            if eng::key(&cur.board) != eng::key(snap) {
                                why = "position key differs".into();
                            } else if cur.board.rce_verif_position_keys() != snap.rce_verif_position_keys() {
                                why = format!(
                                    "record of earlier positions differs: {} keys before, {} after",
                                    snap.rce_verif_position_keys().len(),
                                    cur.board.rce_verif_position_keys().len()
                                );
                            } else if cur.board.rce_verif_history_len() != snap.rce_verif_history_len() {
                                why = "undo stack length differs".into();
                            } else {
                                why = "an internal field differs (Board != snapshot)".into();
                            }
                        }
                        let mut mv = cur.moves.clone();
                        mv.push(om.uci());
                        let p = PathRef {
                            seed: cur.seed,
                            moves: &mv,
                            depth_left,
                        };
                        self.sink.report(
                            p.sig("unmake"),
                            format!(
                                "make {} + subtree(depth {}) + unmake at {} (seed {} [{}] + {:?}) does not restore the position: {why}",
                                om.uci(),
                                depth_left - 1,
                                pos.fen(),
                                cur.seed.name,
                                cur.seed.prefix.join(" "),
                                cur.moves
                            ),
                            p.replay(vec![("subtree_depth", super::report::i(depth_left - 1))]),
                        );
                        cur.board = snap.clone();
                    }
                }
                Prop::C01 => {
                    // the move list of THIS position again, right after coming back from the
                    // child (make + whole subtree + unmake on the same live board): an undo that
                    // restores the position only approximately shows here before any later undo
                    // can repair it
                    let again = eng::legal(&mut cur.board);
                    cur.stats.regenerated_after_unmake += 1;
                    if again != eng_moves {
                        let mut a: Vec<Mv> = again.iter().map(|(m, _)| *m).collect();
                        let mut b: Vec<Mv> = or_moves.clone();
                        a.sort();
                        b.sort();
                        let extra: Vec<String> = a.iter().filter(|m| !b.contains(m)).map(|m| m.uci()).collect();
                        let missing: Vec<String> = b.iter().filter(|m| !a.contains(m)).map(|m| m.uci()).collect();
                        let mut mv = cur.moves.clone();
                        mv.push(om.uci());
                        let p = PathRef {
                            seed: cur.seed,
                            moves: &mv,
                            depth_left,
                        };
                        self.sink.report(
                            p.sig("moves-after-unmake"),
                            format!(
                                "legal moves at {} (seed {} + {:?}) generated again after make {} + subtree(depth {}) + unmake differ from the rules: engine-only {:?}, missing {:?}",
                                pos.fen(),
                                cur.seed.name,
                                cur.moves,
                                om.uci(),
                                depth_left - 1,
                                extra,
                                missing
                            ),
                            p.replay(vec![("subtree_depth", super::report::i(depth_left - 1)), ("regenerate_after_unmake", J::Bool(true))]),
                        );
                    }
                }
                Prop::C04 => {
                    let k = eng::key(&cur.board);
                    let scratch = ZKey::from(&cur.board).rce_verif_u64();
                    if k != key_here || k != scratch {
                        let mut mv = cur.moves.clone();
                        mv.push(om.uci());
                        let p = PathRef {
                            seed: cur.seed,
                            moves: &mv,
                            depth_left,
                        };
                        self.sink.report(
                            p.sig("key-after-unmake"),
                            format!("after unmaking {} at {} the key is {k}; before the move it was {key_here}; from scratch {scratch}", om.uci(), pos.fen()),
                            p.replay(vec![]),
                        );
                    }
                }
                _ => {}
            }
        }
        if self.prop == Prop::C02 {
            // the legal-move list is the same as before all that
            let again = eng::legal(&mut cur.board);
            if again != eng_moves {
                let p = self.pr(cur, depth_left);
                self.sink.report(
                    p.sig("moves-after"),
                    format!("legal-move list at {} differs after make/unmake of all children", pos.fen()),
                    p.replay(vec![]),
                );
            }
        }
    }
}

pub struct Budget {
    pub core: u64,
    pub feature: u64,
    pub bench: u64,
    pub max_depth: u32,
}

pub struct SeedResult {
    pub name: String,
    pub completed_depth: u32,
    pub nodes_at_depth: Vec<u64>,
}

pub struct Outcome {
    pub stats: Stats,
    pub per_seed: Vec<SeedResult>,
    pub distinct_states: u64,
    pub machinery_errors: Vec<String>,
}

pub fn threads() -> usize {
    std::env::var("VERIF_THREADS")
        .ok()
        .and_then(|x| x.parse().ok())
        .unwrap_or_else(|| std::thread::available_parallelism().map_or(8, |n| n.get()))
}

fn run_parallel<T: Sync, R: Send>(items: &[T], f: &(dyn Fn(&T) -> R + Sync)) -> Vec<R> {
    let next = AtomicUsize::new(0);
    let out: Mutex<Vec<(usize, R)>> = Mutex::new(Vec::with_capacity(items.len()));
    std::thread::scope(|sc| {
        for _ in 0..threads().min(items.len().max(1)) {
            sc.spawn(|| loop {
                let k = next.fetch_add(1, Ordering::Relaxed);
                if k >= items.len() {
                    break;
                }
                let r = f(&items[k]);
                out.lock().unwrap().push((k, r));
            });
        }
    });
    let mut v = out.into_inner().unwrap();
    v.sort_by_key(|(k, _)| *k);
    v.into_iter().map(|(_, r)| r).collect()
}

/// Iterated-depth exploration of all seeds under the per-class node budget.
pub fn explore(walk: &Walk, seeds: &[Seed], budget: &Budget) -> Outcome {
    super::searchrun::quiet_panics();
    let mut total = Stats::default();
    let mut per_seed: Vec<SeedResult> = seeds
        .iter()
        .map(|sd| SeedResult {
            name: sd.name.clone(),
            completed_depth: 0,
            nodes_at_depth: vec![],
        })
        .collect();
    let mut errors: Vec<String> = Vec::new();
    let mut active: Vec<usize> = (0..seeds.len()).collect();
    // every round re-walks from the seeds to a depth one larger; the statistics reported are
    // those of each seed's LAST completed round (the smaller rounds are subsumed by it)
    let mut last_stats: Vec<Stats> = vec![Stats::default(); seeds.len()];
    let mut depth = 1;
    while !active.is_empty() && depth <= budget.max_depth {
        let split = if depth >= 5 {
            2
        } else if depth >= 3 {
            1
        } else {
            0
        };
        let queue: Mutex<Vec<Task>> = Mutex::new(Vec::new());
        let roots: Vec<Task> = active
            .iter()
            .map(|&k| Task {
                seed_idx: k,
                moves: vec![],
                depth,
            })
            .collect();
        // an engine panic on a valid position is a violation of the property being checked,
        // reported with the task (seed + path prefix) that hit it - never a crash of the check
        let guarded = |t: &Task, emit: Option<(u32, &Mutex<Vec<Task>>)>| -> Result<Stats, String> {
            match std::panic::catch_unwind(std::panic::AssertUnwindSafe(|| walk.run_task(seeds, t, emit))) {
                Ok(r) => r,
                Err(_) => {
                    let sd = &seeds[t.seed_idx];
                    let msg = super::searchrun::last_panic();
                    walk.sink.report(
                        format!("panic|{}|{}", sd.name, msg.lines().next().unwrap_or("")),
                        format!("the engine panicked while exploring seed {} ({} [{}]) below {:?} to depth {}: {}", sd.name, sd.fen, sd.prefix.join(" "), t.moves, t.depth, msg.replace('\n', " ")),
                        obj(vec![("kind", s("path")), ("seed", s(sd.name.clone())), ("fen", s(sd.fen.clone())), ("prefix", arr_s(&sd.prefix)), ("moves", arr_s(&t.moves)), ("subtree_depth", super::report::i(t.depth))]),
                    );
                    Ok(Stats::default())
                }
            }
        };
        let stats_a = run_parallel(&roots, &|t: &Task| {
            if split == 0 {
                guarded(t, None)
            } else {
                guarded(t, Some((split, &queue)))
            }
        });
        let mut round: HashMap<usize, Stats> = HashMap::new();
        for (t, r) in roots.iter().zip(stats_a) {
            match r {
                Ok(st) => round.entry(t.seed_idx).or_default().add(&st),
                Err(e) => errors.push(e),
            }
        }
        let mut sub = queue.into_inner().unwrap();
        // biggest seeds first for better load balance
        sub.sort_by_key(|t| (t.seed_idx, t.moves.clone()));
        let stats_b = run_parallel(&sub, &|t: &Task| guarded(t, None));
        for (t, r) in sub.iter().zip(stats_b) {
            match r {
                Ok(st) => round.entry(t.seed_idx).or_default().add(&st),
                Err(e) => errors.push(e),
            }
        }
        if !errors.is_empty() {
            break;
        }
        let mut next_active = Vec::new();
        for &k in &active {
            let st = round.remove(&k).unwrap_or_default();
            per_seed[k].completed_depth = depth;
            per_seed[k].nodes_at_depth.push(st.nodes);
            let n = st.nodes;
            last_stats[k] = st;
            let cap = match seeds[k].class {
                Class::Core => budget.core,
                Class::Feature => budget.feature,
                Class::Bench => budget.bench,
            };
            let nd = &per_seed[k].nodes_at_depth;
            let ratio = if nd.len() >= 2 && nd[nd.len() - 2] > 0 {
                (n as f64 / nd[nd.len() - 2] as f64).max(1.0)
            } else {
                30.0
            };
            let predicted = (n as f64 * ratio) as u64;
            // a seed whose tree stopped growing (all lines ended) is complete
            let grew = nd.len() < 2 || n > nd[nd.len() - 2];
            if predicted <= cap && grew {
                next_active.push(k);
            }
        }
        active = next_active;
        depth += 1;
    }
    for st in &last_stats {
        total.add(st);
    }
    Outcome {
        stats: total,
        per_seed,
        distinct_states: walk.tables.distinct_states(),
        machinery_errors: errors,
    }
}

pub fn per_seed_json(o: &Outcome) -> J {
    let mut by_depth: std::collections::BTreeMap<u32, Vec<String>> = Default::default();
    for r in &o.per_seed {
        by_depth.entry(r.completed_depth).or_default().push(r.name.clone());
    }
    J::Obj(
        by_depth
            .into_iter()
            .map(|(d, names)| {
                (
                    format!("depth_{d}"),
                    obj(vec![("seeds", super::report::i(names.len() as u64)), ("names", s(names.join(" ")))]),
                )
            })
            .collect(),
    )
}

static _UNUSED: AtomicU64 = AtomicU64::new(0);
