//! C01-C05: board-level properties decided on the position-space explorer.

use super::explore::{self, Budget, Prop, Tables, Walk};
use super::oracle;
use super::report::{self, i, obj, s, Coverage, Sink, J};
use super::seeds::{self, Seed};
use super::Args;

pub fn budget(tier: &str, prop: Prop) -> Budget {
    let thorough = tier == "thorough";
    let scale = |q: u64, t: u64| if thorough { t } else { q };
    match prop {
        // C05's per-node work is dominated by the perturbation alphabet; its walk is smaller
        Prop::C05 => Budget {
            core: scale(300_000, 30_000_000),
            feature: scale(20_000, 1_000_000),
            bench: scale(3_000, 150_000),
            max_depth: 7,
        },
        _ => Budget {
            core: scale(600_000, 30_000_000),
            feature: scale(40_000, 2_000_000),
            bench: scale(3_000, 200_000),
            max_depth: 8,
        },
    }
}

fn prop_of(id: &str) -> Prop {
    match id {
        "C01" => Prop::C01,
        "C02" => Prop::C02,
        "C03" => Prop::C03,
        "C04" => Prop::C04,
        _ => Prop::C05,
    }
}

pub fn run(args: &Args) -> i32 {
    let id = args.cmd.as_str();
    let prop = prop_of(id);
    let thorough = args.tier == "thorough";
    let sink = Sink::new(id, &args.tier);
    let perft_nodes = match oracle::self_check(thorough) {
        Ok(n) => n,
        Err(e) => {
            eprintln!("MACHINERY: {e}");
            return 2;
        }
    };
    let mut seeds = seeds::all();
    if let Ok(only) = std::env::var("VERIF_ONLY_SEED") {
        seeds.retain(|sd| sd.name == only);
    }
    let walk = Walk {
        prop,
        sink: &sink,
        tables: Tables::new(if thorough { 50_000_000 } else { 6_000_000 }),
        collect: None,
        perturb_per_seed: if prop == Prop::C05 { if thorough { 60 } else { 6 } } else { 0 },
        perturb_insert: !thorough,
    };
    let b = budget(&args.tier, prop);
    let out = explore::explore(&walk, &seeds, &b);
    if !out.machinery_errors.is_empty() {
        for e in &out.machinery_errors {
            eprintln!("MACHINERY: {e}");
        }
        // a path the engine cannot follow is a C01 matter; for C01 it is reported as a violation there
        return 2;
    }
    let st = &out.stats;
    let samples = vec![
        obj(vec![
            ("seed", s(seeds[0].name.clone())),
            ("fen", s(seeds[0].fen.clone())),
            ("explored_to_depth", i(out.per_seed[0].completed_depth)),
            ("nodes_per_depth", J::Arr(out.per_seed[0].nodes_at_depth.iter().map(|n| i(*n)).collect())),
        ]),
        obj(vec![
            ("seed", s(seeds[seeds.len() / 3].name.clone())),
            ("fen", s(seeds[seeds.len() / 3].fen.clone())),
            ("prefix", report::arr_s(&seeds[seeds.len() / 3].prefix)),
            ("explored_to_depth", i(out.per_seed[seeds.len() / 3].completed_depth)),
        ]),
    ];
    let mut extra = vec![
        ("seeds".to_string(), i(seeds.len() as u64)),
        ("leaf_paths".to_string(), i(st.leaves)),
        ("features".to_string(), st.json()),
        ("completed_depth_per_seed".to_string(), explore::per_seed_json(&out)),
        ("oracle_selfcheck_perft_nodes".to_string(), i(perft_nodes)),
        (
            "bound".to_string(),
            s(format!(
                "per seed: depth iterated 1,2,3,... while the predicted node count stays within the class budget (core {}, feature {}, bench {}); every listed depth was explored completely",
                b.core, b.feature, b.bench
            )),
        ),
    ];
    if matches!(prop, Prop::C04 | Prop::C05) {
        extra.push(("table_entries".to_string(), i(walk.tables.table_entries() as u64)));
        extra.push((
            "table_capped".to_string(),
            J::Bool(walk.tables.capped.load(std::sync::atomic::Ordering::Relaxed)),
        ));
    }
    if prop == Prop::C05 {
        // (d) the position cache after real searches: every cached key is the key of a position of the search tree
        let ck = super::cachekeys::check(&sink, thorough);
        extra.push(("cache_key_searches".to_string(), i(ck.searches)));
        extra.push(("cache_key_tree_positions_enumerated".to_string(), i(ck.tree_positions)));
        extra.push(("cache_keys_checked".to_string(), i(ck.keys_checked)));
        extra.push(("cache_key_cases_skipped_over_budget".to_string(), i(ck.skipped_over_budget)));
        extra.push(("perturbed_positions".to_string(), i(st.perturbed_positions)));
        extra.push(("perturbations".to_string(), i(st.perturbations)));
    }
    let cov = Coverage {
        states: out.distinct_states,
        transitions: st.transitions,
        traces: st.leaves,
        samples,
        exhaustive: None,
        extra,
        assumptions: vec![
            "the independent mailbox oracle is the rules of chess (validated on every run against published perft totals)".into(),
            "Board::from_fen is used to open the seeds (its result is compared with the oracle's parse; C07 checks it in depth)".into(),
            "positions outside the explored neighbourhoods and games longer than the depth bound are not covered".into(),
        ],
    };
    report::finish(&sink, cov)
}

/// Replays one recorded path with the property's checks enabled along it.
pub fn replay(prop: &str, doc: &J) -> i32 {
    let Some(r) = doc.get("replay") else {
        eprintln!("MACHINERY: no replay section");
        return 2;
    };
    if r.get("kind").and_then(|x| x.str()) == Some("cache-key") {
        return super::cachekeys::replay(r);
    }
    let seed = Seed {
        name: r.get("seed").and_then(|x| x.str()).unwrap_or("replay").to_string(),
        fen: r.get("fen").and_then(|x| x.str()).unwrap_or("").to_string(),
        prefix: r.get("prefix").map(|x| x.str_list()).unwrap_or_default(),
        class: seeds::Class::Core,
    };
    let moves = r.get("moves").map(|x| x.str_list()).unwrap_or_default();
    let sub = r.get("subtree_depth").and_then(|x| x.int()).unwrap_or(0) as u32;
    let sink = Sink::new(prop, "quick");
    let walk = Walk {
        prop: prop_of(prop),
        sink: &sink,
        tables: Tables::new(1_000_000),
        collect: None,
        perturb_per_seed: if prop == "C05" { 1_000_000 } else { 0 },
        perturb_insert: true,
    };
    let seeds = vec![seed];
    // walk the recorded line: each prefix of the path is a task of depth 1 (+ the recorded subtree depth at the end)
    let mut status = 0;
    for run in 0..2 {
        for k in 0..=moves.len() {
            let depth = if k == moves.len() { sub } else { 1 };
            let t = explore::Task {
                seed_idx: 0,
                moves: moves[..k].to_vec(),
                depth: depth.max(if k == moves.len() { 0 } else { 1 }),
            };
            if let Err(e) = walk.run_task(&seeds, &t, None) {
                eprintln!("MACHINERY: {e}");
                return 2;
            }
        }
        let n = sink.count();
        println!("replay run {}: {} violation(s) observed along the path", run + 1, n);
        if run == 0 {
            status = n;
            for v in sink.take() {
                println!("  {}", v.what);
            }
        } else if (n - status > 0) != (status > 0) {
            eprintln!("MACHINERY: replay not reproducible");
            return 2;
        }
    }
    if status > 0 {
        1
    } else {
        0
    }
}
