//! C12: with the cache ON, short forced mates are found and avoidable mate threats avoided.
//! The oracle is an exhaustive mate solver on the reference rules; the engine is searched to
//! depth 3 and 4 after EVERY cache history of <= 2 earlier completed searches of the same
//! position at depths 1..4 (including none) - the cache is cleared only between histories.

use super::oracle::{Mv, Pos};
use super::report::{self, i, obj, s, Coverage, Sink, J};
use super::searchrun::{self, Case, Cut, Limits, Opts};
use super::workers::{self, Worker};
use super::Args;
use std::collections::BTreeSet;

pub fn is_mate(p: &Pos) -> bool {
    p.in_check(p.white) && p.legal_moves().is_empty()
}

/// Can the side to move force checkmate within `n` of its own moves? (exhaustive)
pub fn forced_mate(p: &Pos, n: u32) -> bool {
    if n == 0 {
        return false;
    }
    for m in p.legal_moves() {
        let c = p.make(&m);
        if mated_within(&c, n - 1) {
            return true;
        }
    }
    false
}

/// The side to move is checkmated now, or every reply leads to a forced mate within `n` more
/// attacker moves.
pub fn mated_within(p: &Pos, n: u32) -> bool {
    let replies = p.legal_moves();
    if replies.is_empty() {
        return p.in_check(p.white);
    }
    if n == 0 {
        return false;
    }
    replies.iter().all(|r| forced_mate(&p.make(r), n))
}

#[derive(Debug, Clone, Default)]
pub struct Class {
    pub mate_in_1: Vec<String>,
    /// key moves of a mate in two (only filled when there is no mate in one)
    pub mate_in_2: Vec<String>,
    /// moves after which the opponent has a mate in one / moves after which he has not
    pub allows_mate: Vec<String>,
    pub safe: Vec<String>,
}

pub fn classify(p: &Pos) -> Class {
    let mut c = Class::default();
    for m in p.legal_moves() {
        let child = p.make(&m);
        if is_mate(&child) {
            c.mate_in_1.push(m.uci());
        }
        if forced_mate(&child, 1) {
            c.allows_mate.push(m.uci());
        } else {
            c.safe.push(m.uci());
        }
    }
    if c.mate_in_1.is_empty() {
        for m in p.legal_moves() {
            let child = p.make(&m);
            if !child.legal_moves().is_empty() && mated_within(&child, 1) {
                c.mate_in_2.push(m.uci());
            }
        }
    }
    c
}

impl Class {
    pub fn interesting(&self) -> bool {
        !self.mate_in_1.is_empty() || !self.mate_in_2.is_empty() || (!self.allows_mate.is_empty() && !self.safe.is_empty())
    }
    pub fn label(&self) -> &'static str {
        if !self.mate_in_1.is_empty() {
            "mate-in-1"
        } else if !self.mate_in_2.is_empty() {
            "mate-in-2"
        } else {
            "avoidable-threat"
        }
    }
}

/// The oracle's verdict on the engine's chosen move.
pub fn judge_move(p: &Pos, c: &Class, chosen: &str) -> Option<String> {
    let Some(m) = p.legal_moves().into_iter().find(|m| m.uci() == chosen) else {
        return Some(format!("chosen move {chosen} is not legal"));
    };
    let child = p.make(&m);
    if !c.mate_in_1.is_empty() {
        if !is_mate(&child) {
            return Some(format!("a mate in one exists ({}) but {chosen} does not give checkmate", c.mate_in_1.join(" ")));
        }
        return None;
    }
    if !c.mate_in_2.is_empty() {
        // "keeps a forced mate": after the move the opponent is still mated by force (we accept
        // any forced mate the exhaustive solver can establish within two more attacker moves)
        if !(mated_within(&child, 1) || mated_within(&child, 2)) {
            return Some(format!("a mate in two exists ({}) but after {chosen} no forced mate is left", c.mate_in_2.join(" ")));
        }
        return None;
    }
    if !c.safe.is_empty() && c.allows_mate.iter().any(|x| x == chosen) {
        return Some(format!("{chosen} allows a mate in one although {} legal moves avoid it (e.g. {})", c.safe.len(), c.safe[0]));
    }
    None
}

/// cache histories: earlier completed searches of the same position (depths), then the search
pub fn histories() -> Vec<Vec<u8>> {
    let mut v: Vec<Vec<u8>> = vec![vec![]];
    for a in 1..=4u8 {
        v.push(vec![a]);
    }
    for a in 1..=4u8 {
        for b in 1..=4u8 {
            v.push(vec![a, b]);
        }
    }
    v
}

const MATE_SEEDS: &[&str] = &[
    "7k/8/5K2/6Q1/8/8/8/8 w - - 0 1",
    "7k/8/6K1/8/8/8/8/R7 w - - 0 1",
    "6k1/5ppp/8/8/8/8/8/R3K3 w Q - 0 1",
    "6rk/6pp/8/6N1/8/8/8/7K w - - 0 1",
    "8/1R6/2N2P2/2kP4/2P4P/3P4/8/6K1 w - - 1 94",
    "7k/8/4Q1K1/8/8/8/8/8 w - - 0 1",
    "8/8/8/8/8/5k2/4q3/6K1 b - - 0 1",
    "r1bqkb1r/pppp1ppp/2n2n2/4p2Q/2B1P3/8/PPPP1PPP/RNB1K1NR w KQkq - 4 4",
    "rnbqkbnr/pppp1ppp/8/4p3/6P1/5P2/PPPPP2P/RNBQKBNR b KQkq - 0 2",
    "6k1/5ppp/8/8/8/8/5PPP/3R2K1 w - - 0 1",
    "6k1/3R1ppp/8/8/8/8/5PPP/6K1 b - - 0 1",
    "5rk1/5ppp/8/8/8/8/1Q3PPP/6K1 w - - 0 1",
    "2kr4/ppp5/8/8/8/8/PPP3q1/1K5R w - - 0 1",
    "k7/8/1K6/8/8/8/8/7R w - - 0 1",
    "k7/2K5/8/8/8/8/8/6R1 w - - 0 1",
    "4k3/8/4K3/8/8/8/8/R6R w - - 0 1",
    "3qk3/8/8/8/8/8/5PPP/6K1 b - - 0 1",
    "r5k1/5ppp/8/8/8/8/5PPP/1R4K1 w - - 0 1",
    "8/8/8/8/8/6k1/5q2/7K w - - 0 1",
    "1k6/ppp5/8/8/8/8/8/K2RR3 w - - 0 1",
    "kbK5/pp6/1P6/8/8/8/8/R7 w - - 0 1",
    "5k2/5P2/5K2/8/8/8/8/7R w - - 0 1",
];

pub struct Target {
    pub fen: String,
    /// None for the generated families: classified by the worker that owns the position
    pub class: Option<Class>,
    /// true for the generated families (searched with fewer cache histories in quick)
    pub busy: bool,
    /// quick tier: 0 = fresh cache only, 1 = the short list of histories, 2 = all 21
    pub level: u8,
    /// many-queens positions (searches are slow: quick tier takes the first 80 at depth 3 only)
    pub heavy: bool,
    /// sparse family (26874 positions): the quick tier searches these to depth 4 only
    pub sparse: bool,
}

/// Deterministic generator of busy positions (fixed LCG seed, NOT re-randomised per run): used
/// once, offline, to produce `mate_family.txt`; every listed FEN is re-classified by the solver
/// at run time, so the file is only a list of candidates.
pub fn generate(count: usize, seed: u64, profile: u8) -> Vec<(String, &'static str)> {
    let minor_only = profile == 1;
    fn candidate(seed: u64, k: u64, profile: u8) -> Option<(String, &'static str)> {
        let minor_only = profile == 1;
        let mut x = seed ^ k.wrapping_mul(0x9E3779B97F4A7C15) ^ 0xD1B54A32D192ED03;
        let mut rnd = move |m: u64| -> u64 {
            x ^= x << 13;
            x ^= x >> 7;
            x ^= x << 17;
            (x >> 11) % m
        };
        let _ = rnd(7);
        let mut p = Pos::empty();
        let wk = rnd(64) as usize;
        let mut bk = rnd(64) as usize;
        while bk == wk || (((bk % 8) as i32 - (wk % 8) as i32).abs() <= 1 && ((bk / 8) as i32 - (wk / 8) as i32).abs() <= 1) {
            bk = rnd(64) as usize;
        }
        p.sq[wk] = super::oracle::K;
        p.sq[bk] = -super::oracle::K;
        if profile == 2 {
            // heavy positions: the side to move has 7-10 queens (more than 128 pseudo-legal moves)
            let strong: i8 = if rnd(2) == 0 { 1 } else { -1 };
            let nq = 7 + rnd(4) as usize;
            let mut placed = 0;
            while placed < nq {
                let sq = rnd(64) as usize;
                if p.sq[sq] != 0 {
                    continue;
                }
                p.sq[sq] = strong * 5;
                placed += 1;
            }
            for _ in 0..(2 + rnd(5) as usize) {
                let sq = rnd(64) as usize;
                if p.sq[sq] != 0 || sq < 8 || sq >= 56 {
                    continue;
                }
                p.sq[sq] = -strong * (1 + rnd(4) as i8);
            }
            p.white = strong > 0;
        } else if profile == 6 {
            // sparse positions: the kings and two to five pieces of any kind and colour
            for _ in 0..(2 + rnd(4) as usize) {
                let sq = rnd(64) as usize;
                if p.sq[sq] != 0 {
                    continue;
                }
                let kind = 1 + rnd(5) as i8;
                if kind == 1 && (sq < 8 || sq >= 56) {
                    continue;
                }
                p.sq[sq] = if rnd(2) == 0 { kind } else { -kind };
            }
            p.white = rnd(2) == 0;
        } else if profile == 5 {
            // a double pawn step that gives check and can only be answered by capturing en passant
            // (it would be mate without that rule), in a position that has a real short mate
            let f = 1 + rnd(6) as usize;
            let ks: i32 = if rnd(2) == 0 { -1 } else { 1 };
            let ps: i32 = if rnd(2) == 0 { -1 } else { 1 };
            for sq in 0..64 {
                p.sq[sq] = 0;
            }
            let bk2 = 4 * 8 + (f as i32 + ks) as usize;
            let bp = 3 * 8 + (f as i32 + ps) as usize;
            p.sq[8 + f] = 1;
            p.sq[bk2] = -super::oracle::K;
            p.sq[bp] = -1;
            let mut wk2 = rnd(64) as usize;
            let mut guard = 0;
            while guard < 50 && (p.sq[wk2] != 0 || wk2 == 16 + f || wk2 == 24 + f || (((wk2 % 8) as i32 - (bk2 % 8) as i32).abs() <= 1 && ((wk2 / 8) as i32 - (bk2 / 8) as i32).abs() <= 1)) {
                wk2 = rnd(64) as usize;
                guard += 1;
            }
            if guard >= 50 {
                return None;
            }
            p.sq[wk2] = super::oracle::K;
            let kinds = [1i8, 1, 2, 3, 4, 5, 2, 3, 4];
            for _ in 0..(3 + rnd(7) as usize) {
                let sq = rnd(64) as usize;
                if p.sq[sq] != 0 || sq == 16 + f || sq == 24 + f {
                    continue;
                }
                let kind = kinds[rnd(kinds.len() as u64) as usize];
                if kind == 1 && (sq < 8 || sq >= 56) {
                    continue;
                }
                p.sq[sq] = if rnd(3) != 0 { kind } else { -kind };
            }
            p.white = true;
        } else if profile == 3 {
            // promotion positions: the side to move has one to three pawns on its seventh rank,
            // a few pieces, and the decisive move(s) are promotions (filtered below)
            let strong: i8 = if rnd(2) == 0 { 1 } else { -1 };
            let seventh = if strong > 0 { 6 } else { 1 };
            for _ in 0..(1 + rnd(3) as usize) {
                let sq = seventh * 8 + rnd(8) as usize;
                if p.sq[sq] == 0 {
                    p.sq[sq] = strong;
                }
            }
            let kinds = [1i8, 1, 2, 2, 3, 3, 4, 4, 5];
            for _ in 0..(2 + rnd(7) as usize) {
                let sq = rnd(64) as usize;
                if p.sq[sq] != 0 {
                    continue;
                }
                let kind = kinds[rnd(kinds.len() as u64) as usize];
                if kind == 1 && (sq < 8 || sq >= 56) {
                    continue;
                }
                p.sq[sq] = if rnd(3) == 0 { strong * kind } else { -strong * kind };
            }
            p.white = strong > 0;
        } else if minor_only {
            // endings without pawns, rooks and queens: one side has two or three minor pieces,
            // the other at most one (mates exist although most of these endings are drawn)
            let strong: i8 = if rnd(2) == 0 { 1 } else { -1 };
            let n_strong = 2 + rnd(2) as usize;
            let n_weak = rnd(2) as usize;
            for (n, sign) in [(n_strong, strong), (n_weak, -strong)] {
                let mut placed = 0;
                while placed < n {
                    let sq = rnd(64) as usize;
                    if p.sq[sq] != 0 {
                        continue;
                    }
                    p.sq[sq] = sign * (2 + rnd(2) as i8);
                    placed += 1;
                }
            }
            p.white = strong > 0;
        } else {
            let n = if profile == 4 { 8 + rnd(14) as usize } else { 5 + rnd(12) as usize };
            let kinds = [1i8, 1, 1, 1, 1, 2, 2, 3, 3, 4, 4, 5];
            for _ in 0..n {
                let sq = rnd(64) as usize;
                if p.sq[sq] != 0 {
                    continue;
                }
                let kind = kinds[rnd(kinds.len() as u64) as usize];
                if kind == 1 && (sq < 8 || sq >= 56) {
                    continue;
                }
                p.sq[sq] = if rnd(2) == 0 { kind } else { -kind };
            }
            p.white = rnd(2) == 0;
        }
        if p.in_check(!p.white) || p.legal_moves().is_empty() {
            return None;
        }
        let c = classify(&p);
        if !c.interesting() {
            return None;
        }
        if profile == 5 {
            // the double step must be legal, give check, and leave only en-passant captures as replies;
            // the position must have a real mate in two (or in one) that is NOT that double step
            let Some(pushm) = p.legal_moves().into_iter().find(|m| m.double && m.piece == 1 && p.make(m).in_check(false)) else { return None };
            let after = p.make(&pushm);
            let replies = after.legal_moves();
            if replies.is_empty() || !replies.iter().all(|r| r.ep) {
                return None;
            }
            let key: &Vec<String> = if !c.mate_in_1.is_empty() { &c.mate_in_1 } else if !c.mate_in_2.is_empty() { &c.mate_in_2 } else { return None };
            if key.contains(&pushm.uci()) {
                return None;
            }
        }
        if profile == 4 {
            // "greedy trap" positions: a mate in two whose keys are all quiet, non-checking moves
            // while some other move wins at least a minor piece at once, and after some key and
            // some quiet defence every mating move is a capture (input selection: a search that
            // misjudges the mate is tempted by material, so the wrong choice becomes visible)
            if c.mate_in_2.is_empty() {
                return None;
            }
            let moves = p.legal_moves();
            let quiet_keys = moves.iter().filter(|m| c.mate_in_2.contains(&m.uci())).all(|m| m.captured == 0 && !m.ep && m.promo == 0 && !p.make(m).in_check(!p.white));
            let greedy = moves.iter().any(|m| !c.mate_in_2.contains(&m.uci()) && m.captured.abs() >= 2);
            if !quiet_keys || !greedy {
                return None;
            }
            let capture_mate = moves.iter().filter(|m| c.mate_in_2.contains(&m.uci())).any(|k| {
                let a = p.make(k);
                a.legal_moves().iter().filter(|r| r.captured == 0).any(|r| {
                    let b = a.make(r);
                    let mating: Vec<_> = b.legal_moves().into_iter().filter(|x| is_mate(&b.make(x))).collect();
                    !mating.is_empty() && mating.iter().all(|x| x.captured != 0)
                })
            });
            if !capture_mate {
                return None;
            }
        }
        if profile == 3 {
            // keep only positions in which EVERY decisive move is a promotion (input selection)
            let key: &Vec<String> = if !c.mate_in_1.is_empty() { &c.mate_in_1 } else if !c.mate_in_2.is_empty() { &c.mate_in_2 } else { return None };
            if !key.iter().all(|k| k.len() == 5) {
                return None;
            }
        }
        if profile == 2 {
            // keep only positions whose decisive moves ALL come late in the engine's generation
            // order (index >= 128 of the pseudo-legal list): input selection, not an oracle
            let key: &Vec<String> = if !c.mate_in_1.is_empty() { &c.mate_in_1 } else if !c.mate_in_2.is_empty() { &c.mate_in_2 } else { return None };
            let b = crate::board::Board::from_fen(&p.fen());
            let order: Vec<String> = b.get_all_moves().iter().map(|m| m.to_notation()).collect();
            if order.len() <= 128 || !key.iter().all(|k| order.iter().position(|o| o == k).is_some_and(|ix| ix >= 128)) {
                return None;
            }
        }
        Some((p.fen(), c.label()))
    }
    let mut out: Vec<(String, &'static str)> = vec![];
    let mut block = 0u64;
    const BLOCK: u64 = 20_000;
    let threads = super::explore::threads() as u64;
    loop {
        let results: std::sync::Mutex<Vec<(u64, String, &'static str)>> = std::sync::Mutex::new(vec![]);
        std::thread::scope(|sc| {
            for t in 0..threads {
                let results = &results;
                sc.spawn(move || {
                    let mut local = vec![];
                    let mut k = block * BLOCK + t;
                    while k < (block + 1) * BLOCK {
                        if let Some((f, l)) = candidate(seed, k, profile) {
                            local.push((k, f, l));
                        }
                        k += threads;
                    }
                    results.lock().unwrap().extend(local);
                });
            }
        });
        let mut r = results.into_inner().unwrap();
        r.sort();
        for (_, f, l) in r {
            let have = out.iter().filter(|(_, x)| *x == l).count();
            let quota = if l == "mate-in-2" { count } else { count / 3 };
            if have < quota {
                out.push((f, l));
            }
        }
        block += 1;
        let enough = if profile != 0 { out.iter().filter(|(_, l)| *l != "avoidable-threat").count() >= count } else { out.iter().filter(|(_, l)| *l == "mate-in-2").count() >= count };
        if enough || block > 4000 {
            break;
        }
    }
    out
}

pub fn targets(tier: &str) -> Vec<Target> {
    let thorough = tier == "thorough";
    let depth = if thorough { 3 } else { 2 };
    let cap = if thorough { 6000 } else { 600 };
    let mut seen: BTreeSet<String> = BTreeSet::new();
    let mut frontier: Vec<Pos> = MATE_SEEDS.iter().filter_map(|f| Pos::from_fen(f).ok()).collect();
    let mut all: Vec<Pos> = vec![];
    for d in 0..=depth {
        let mut next = vec![];
        for p in &frontier {
            let mut q = p.clone();
            q.halfmove = 0;
            q.fullmove = 1;
            if seen.insert(q.fen()) {
                all.push(q.clone());
                if d < depth {
                    for m in p.legal_moves() {
                        next.push(p.make(&m));
                    }
                }
            }
        }
        frontier = next;
    }
    let mut v = vec![];
    for p in all {
        if p.legal_moves().is_empty() {
            continue;
        }
        let c = classify(&p);
        if c.interesting() {
            v.push(Target { fen: p.fen(), class: Some(c), busy: false, level: 2, heavy: false, sparse: false });
        }
    }
    // keep the class mix: take round-robin from the three classes up to the cap
    let mut out: Vec<Target> = vec![];
    let mut buckets: Vec<Vec<Target>> = vec![vec![], vec![], vec![]];
    for t in v {
        let k = match t.class.as_ref().map_or("", |c| c.label()) {
            "mate-in-1" => 0,
            "mate-in-2" => 1,
            _ => 2,
        };
        buckets[k].push(t);
    }
    let mut k = 0;
    while out.len() < cap && buckets.iter().any(|b| !b.is_empty()) {
        if let Some(t) = buckets[k % 3].pop() {
            out.push(t);
        }
        k += 1;
    }
    out.sort_by(|a, b| a.fen.cmp(&b.fen));
    // the generated families (see `generate`); every FEN is re-classified here. Quick tier: the
    // first positions of each class get the short list of cache histories, ALL the others are
    // searched from a fresh cache (a mate missed on a fresh cache is the most common failure)
    let (n2, n1, na) = if thorough { (1500, 300, 300) } else { (70, 15, 15) };
    let mut taken = [0usize; 3];
    let mut heavy_taken = 0usize;
    for (file, minor, heavy) in [(include_str!("mate_family.txt"), false, false), (include_str!("mate_family_minor.txt"), true, false), (include_str!("mate_family_promo.txt"), true, false), (include_str!("mate_family_greedy.txt"), true, false), (include_str!("mate_family_heavy.txt"), true, true)] {
        if minor {
            taken = [0; 3];
        }
        for line in file.lines() {
            let Some((label, fen)) = line.split_once('\t') else { continue };
            let k = match label {
                "mate-in-2" => 0,
                "mate-in-1" => 1,
                _ => 2,
            };
            let Ok(p) = Pos::from_fen(fen) else { continue };
            let level = if !heavy && taken[k] < [n2, n1, na][k] / if minor { 3 } else { 1 } { 1 } else { 0 };
            taken[k] += 1;
            if heavy {
                heavy_taken += 1;
                if !thorough && heavy_taken > 80 {
                    continue;
                }
            }
            out.push(Target { fen: p.fen(), class: None, busy: true, level, heavy, sparse: false });
        }
    }
    // sparse positions (kings and two to five pieces): fresh cache only; rare interior situations
    // (a side left without pieces, placeholder moves in the cache) show up in about one of 10^4
    for line in include_str!("mate_family_sparse.txt").lines() {
        let Some((_, fen)) = line.split_once('\t') else { continue };
        let Ok(p) = Pos::from_fen(fen) else { continue };
        out.push(Target { fen: p.fen(), class: None, busy: true, level: 0, heavy: false, sparse: true });
    }
    // a double pawn step that would be mate but for the en-passant capture, next to a real short
    // mate: both colours (the generator builds White-to-move positions, the mirror is added here)
    for (k, line) in include_str!("mate_family_epcheck.txt").lines().enumerate() {
        let Some((_, fen)) = line.split_once('\t') else { continue };
        let Ok(p) = Pos::from_fen(fen) else { continue };
        for q in [p.clone(), p.mirror()] {
            out.push(Target { fen: q.fen(), class: None, busy: true, level: u8::from(k < 20), heavy: false, sparse: false });
        }
    }
    out
}

/// the cache histories used for the busy family in the quick tier
pub fn histories_quick_busy() -> Vec<Vec<u8>> {
    vec![vec![], vec![1], vec![2], vec![3], vec![4], vec![2, 3], vec![3, 4], vec![4, 2], vec![1, 3]]
}

/// additional three-search histories (thorough tier)
pub fn histories_long() -> Vec<Vec<u8>> {
    vec![vec![2, 3, 1], vec![1, 2, 3], vec![3, 2, 1], vec![4, 3, 2], vec![1, 3, 2], vec![2, 1, 3], vec![3, 1, 4], vec![2, 4, 1]]
}

pub fn run_history(fen: &str, hist: &[u8], depth: u8) -> Option<(Option<String>, Option<String>)> {
    let (board, _, _) = searchrun::open(fen, &[]).ok()?;
    let mut first = true;
    let mut last = None;
    for d in hist.iter().copied().chain(std::iter::once(depth)) {
        let case = Case {
            fen: fen.to_string(),
            history: vec![],
            limits: Limits::default(),
            max_depth: Some(d),
            cut: Cut::ClockNever, elapsed_ms: None,
        };
        let out = searchrun::run(&board, &case, &Opts { clear_cache: first, observe: false, neutral: false });
        first = false;
        last = Some((out.best.clone(), out.panicked.clone()));
    }
    last
}

pub fn worker(args: &Args, w: &Worker) -> i32 {
    searchrun::quiet_panics();
    let ts = targets(&args.tier);
    let thorough = args.tier == "thorough";
    let hs_full = histories();
    let hs_busy_quick = histories_quick_busy();
    let hs_fresh: Vec<Vec<u8>> = vec![vec![]];
    let mut hs_thorough = histories();
    hs_thorough.extend(histories_long());
    let mut idx = 0;
    for (ti, t) in ts.iter().enumerate() {
        // a family position belongs to one worker, which classifies it (the exhaustive solver is
        // the expensive part); the neighbourhood positions are classified by `targets` already
        if t.class.is_none() && !w.mine(ti) {
            continue;
        }
        let Ok(pos) = Pos::from_fen(&t.fen) else { continue };
        let class = match &t.class {
            Some(c) => c.clone(),
            None => {
                let c = classify(&pos);
                if !c.interesting() {
                    w.count("family_lines_not_interesting", 1);
                    continue;
                }
                c
            }
        };
        if t.class.is_none() || w.shard == 0 {
            w.count(&format!("positions:{}", class.label()), 1);
        }
        let hs: &Vec<Vec<u8>> = if thorough && t.level > 0 {
            &hs_thorough
        } else if thorough {
            &hs_full
        } else {
            match t.level {
                0 => &hs_fresh,
                1 => &hs_busy_quick,
                _ => &hs_full,
            }
        };
        for depth in [3u8, 4] {
            if t.heavy && depth == 4 && !thorough {
                continue;
            }
            if t.sparse && depth == 3 && !thorough {
                continue;
            }
            for h in hs {
                idx += 1;
                if t.class.is_some() && !w.mine(idx) {
                    continue;
                }
                let Some((best, panicked)) = run_history(&t.fen, h, depth) else { continue };
                w.count("searches_judged", 1);
                w.count(&format!("class:{}", class.label()), 1);
                if t.busy {
                    w.count("searches_on_generated_busy_family", 1);
                }
                let why = match (&best, &panicked) {
                    (_, Some(p)) => Some(format!("the search panicked: {p}")),
                    (None, _) => Some("no move chosen".to_string()),
                    (Some(mv), _) => judge_move(&pos, &class, mv),
                };
                if idx % 501 == 0 {
                    w.sample(obj(vec![("fen", s(t.fen.clone())), ("class", s(class.label())), ("earlier_searches_at_depths", J::Arr(h.iter().map(|d| i(*d)).collect())), ("depth", i(depth)), ("chosen", s(best.clone().unwrap_or_default()))]));
                }
                if let Some(why) = why {
                    w.violation(
                        &format!("{}|{:?}|d{depth}", t.fen, h),
                        &format!("{} ({}) searched to depth {depth} after earlier searches at depths {:?}: {why}", t.fen, class.label(), h),
                        &obj(vec![("kind", s("mates")), ("fen", s(t.fen.clone())), ("earlier", J::Arr(h.iter().map(|d| i(*d)).collect())), ("depth", i(depth))]),
                    );
                }
            }
        }
    }
    w.done()
}

pub fn run(args: &Args) -> i32 {
    let sink = Sink::new("C12", &args.tier);
    let merged = match workers::fan_out("C12", &args.tier, &sink, &[]) {
        Ok(m) => m,
        Err(e) => {
            eprintln!("MACHINERY: {e}");
            return 2;
        }
    };
    let judged = merged.get("searches_judged");
    let classes: Vec<u64> = ["positions:mate-in-1", "positions:mate-in-2", "positions:avoidable-threat"].iter().map(|k| merged.get(k)).collect();
    let mut extra: Vec<(String, J)> = merged.counters.iter().map(|(k, v)| (k.replace(':', "_"), i(*v))).collect();
    extra.push(("positions_mate_in_1".into(), i(classes.first().copied().unwrap_or(0))));
    extra.push(("positions_mate_in_2".into(), i(classes.get(1).copied().unwrap_or(0))));
    extra.push(("positions_avoidable_threat".into(), i(classes.get(2).copied().unwrap_or(0))));
    extra.push(("cache_histories_per_position_and_depth".into(), i(histories().len() as u64)));
    let npos: u64 = classes.iter().sum();
    let cov = Coverage {
        states: npos.max(1),
        transitions: judged.max(1),
        traces: judged,
        samples: if merged.samples.is_empty() { vec![s("none")] } else { merged.samples.clone() },
        exhaustive: None,
        extra,
        assumptions: vec![
            "'keeps a forced mate' is accepted when the exhaustive solver establishes any forced mate within two more attacker moves after the chosen move".into(),
            "positions are loaded from FEN (no history) with half-move clock 0".into(),
        ],
    };
    report::finish(&sink, cov)
}

pub fn replay(doc: &J) -> i32 {
    let Some(r) = doc.get("replay") else { return 2 };
    let fen = r.get("fen").and_then(|x| x.str()).unwrap_or("").to_string();
    let hist: Vec<u8> = r.get("earlier").and_then(|x| x.arr()).map(|v| v.iter().filter_map(|d| d.int()).map(|d| d as u8).collect()).unwrap_or_default();
    let depth = r.get("depth").and_then(|x| x.int()).unwrap_or(3) as u8;
    searchrun::quiet_panics();
    let Ok(pos) = Pos::from_fen(&fen) else { return 2 };
    let c = classify(&pos);
    let a = run_history(&fen, &hist, depth);
    let b = run_history(&fen, &hist, depth);
    let (Some((ma, _)), Some((mb, _))) = (a, b) else { return 2 };
    if ma != mb {
        eprintln!("MACHINERY: replay not reproducible ({ma:?} vs {mb:?})");
        return 2;
    }
    println!("class {} chosen {:?}", c.label(), ma);
    match ma.as_deref().map(|m| judge_move(&pos, &c, m)) {
        Some(Some(why)) => {
            println!("violation reproduced: {why}");
            1
        }
        Some(None) => {
            println!("no violation");
            0
        }
        None => 1,
    }
}
