//! Seed positions for the position-space explorer: non-initial states chosen next to the rare
//! features (en-passant pins, castling through/next to attacked squares, promotion-captures of
//! rooks that still carry rights, double checks, mate/stalemate neighbourhoods, high clocks,
//! histories that already contain repeated positions), plus the colour mirror of each.

use super::oracle::{mirror_uci, Pos};

#[derive(Clone, Debug)]
pub struct Seed {
    pub name: String,
    pub fen: String,
    /// moves (coordinate notation) played from `fen` before the walk starts: gives the walk a
    /// game history, so repeated positions exist already at depth 0
    pub prefix: Vec<String>,
    /// relative weight in the node budget (heavier seeds get deeper)
    pub class: Class,
}

#[derive(Clone, Copy, Debug, PartialEq, Eq)]
pub enum Class {
    Core,
    Feature,
    Bench,
}

pub const START: &str = "rnbqkbnr/pppppppp/8/8/8/8/PPPPPPPP/RNBQKBNR w KQkq - 0 1";
pub const KIWIPETE: &str = "r3k2r/p1ppqpb1/bn2pnp1/3PN3/1p2P3/2N2Q1p/PPPBBPPP/R3K2R w KQkq - 0 1";

const CORE: &[(&str, &str, &str)] = &[
    ("start", START, ""),
    ("kiwipete", KIWIPETE, ""),
    ("perft3", "8/2p5/3p4/KP5r/1R3p1k/8/4P1P1/8 w - - 0 1", ""),
    ("perft4", "r3k2r/Pppp1ppp/1b3nbN/nP6/BBP1P3/q4N2/Pp1P2PP/R2Q1RK1 w kq - 0 1", ""),
    ("perft5", "rnbq1k1r/pp1Pbppp/2p5/8/2B5/8/PPP1NnPP/RNBQK2R w KQ - 1 8", ""),
    ("perft6", "r4rk1/1pp1qppp/p1np1n2/2b1p1B1/2B1P1b1/P1NP1N2/1PP1QPPP/R4RK1 w - - 0 10", ""),
    // histories that already contain the current position / earlier positions
    ("start+shuffle1", START, "g1f3 g8f6 f3g1 f6g8"),
    ("start+shuffle2", START, "g1f3 g8f6 f3g1 f6g8 g1f3 g8f6"),
    ("start+shuffle3", START, "b1c3 b8c6 c3b1 c6b8 g1f3 g8f6 f3g1"),
    ("start+e4e5+shuffle", START, "e2e4 e7e5 g1f3 b8c6 f3g1 c6b8"),
    // same placement, rights lost on the way: must NOT count as a repetition
    ("kiwipete+kingwalk", KIWIPETE, "e1f1 e8f8 f1e1 f8e8"),
    ("kiwipete+rookwalk", KIWIPETE, "h1g1 h8g8 g1h1 g8h8 a1b1 a8b8"),
];

const FEATURE: &[(&str, &str, &str)] = &[
    // en passant that would expose the king along the rank / a diagonal / and legal ep
    ("ep-rank-pin", "7k/8/8/K2pP2r/8/8/8/8 w - d6 0 1", ""),
    ("ep-rank-pin-b", "3k4/3p4/8/K1P4r/8/8/8/8 b - - 0 1", ""),
    ("ep-diag-pin", "8/8/4k3/8/2p5/8/B2P2K1/8 w - - 0 1", ""),
    ("ep-gives-check", "8/8/1k6/2b5/2pP4/8/5K2/8 b - d3 0 1", ""),
    ("ep-both-sides", "4k3/8/8/2pPp3/8/8/8/4K3 w - c6 0 2", ""),
    ("ep-both-sides-e", "4k3/8/8/2pPp3/8/8/8/4K3 w - e6 0 2", ""),
    ("ep-edge-files", "4k3/8/8/Pp4pP/8/8/8/4K3 w - b6 0 2", ""),
    ("ep-edge-files-g", "4k3/8/8/Pp4pP/8/8/8/4K3 w - g6 0 2", ""),
    ("ep-evades-check", "8/8/8/2k5/3Pp3/8/8/4K3 b - d3 0 1", ""),
    ("ep-after-play", "4k3/3p1p2/8/4P3/4p3/8/3P1P2/4K3 w - - 0 1", ""),
    ("double-push-no-capturer", "4k3/p7/8/8/8/8/P7/4K3 w - - 0 1", ""),
    // doubled pawns on the file of the double push: the pawn beside an enemy pawn is not always
    // the one that has just advanced two squares
    ("ep-doubled-pawns-4", "4k3/3p4/8/8/3pP3/8/8/4K3 b - - 0 1", ""),
    ("ep-doubled-pawns-3", "4k3/3p4/8/8/8/3pP3/8/4K3 b - - 0 1", ""),
    ("ep-doubled-pawns-both", "4k3/2p1p3/8/8/2pPp3/2pPp3/8/4K3 b - - 0 1", ""),
    // a queen (and no rook or bishop) pinning pieces
    ("queen-pins", "4k3/8/8/8/q2N1K2/8/2P5/3q4 w - - 0 1", ""),
    // castling: squares next to / on the path attacked
    ("castle-b1-attacked", "1r2k3/8/8/8/8/8/8/R3K2R w KQ - 0 1", ""),
    ("castle-d1-attacked", "3rk3/8/8/8/8/8/8/R3K2R w KQ - 0 1", ""),
    ("castle-f1-attacked", "4kr2/8/8/8/8/8/8/R3K2R w KQ - 0 1", ""),
    ("castle-c1-attacked", "2r1k3/8/8/8/8/8/8/R3K2R w KQ - 0 1", ""),
    ("castle-g1-attacked", "4k1r1/8/8/8/8/8/8/R3K2R w KQ - 0 1", ""),
    ("castle-a1-attacked", "r3k3/8/8/8/8/8/8/R3K2R w KQ - 0 1", ""),
    ("castle-h1-attacked", "4k2r/8/8/8/8/8/8/R3K2R w KQ - 0 1", ""),
    ("castle-in-check", "4k3/8/8/8/8/8/4r3/R3K2R w KQ - 0 1", ""),
    ("castle-rights-mix", "r3k2r/1b4bq/8/8/8/8/7B/R3K2R w KQkq - 0 1", ""),
    ("castle-prevented", "r3k2r/8/3Q4/8/8/5q2/8/R3K2R b KQkq - 0 1", ""),
    ("castle-gives-check-k", "5k2/8/8/8/8/8/8/4K2R w K - 0 1", ""),
    ("castle-gives-check-q", "3k4/8/8/8/8/8/8/R3K3 w Q - 0 1", ""),
    ("castle-partial-rights", "r3k2r/8/8/8/8/8/8/R3K2R w Kq - 0 1", ""),
    ("castle-blocked-b1", "r3k2r/8/8/8/8/8/8/RN2K2R w KQkq - 0 1", ""),
    ("castle-pawn-attacks", "r3k2r/8/8/8/8/8/3p2p1/R3K2R w KQkq - 0 1", ""),
    ("castle-knight-attacks", "r3k2r/8/8/8/8/2n3n1/8/R3K2R w KQkq - 0 1", ""),
    // promotions, also capturing a rook that still carries a right
    ("promo-rook-corner", "r3k2r/1P4P1/8/8/8/8/1p4p1/R3K2R w KQkq - 0 1", ""),
    ("promo-out-of-check", "2K2r2/4P3/8/8/8/8/8/3k4 w - - 0 1", ""),
    ("promo-gives-check", "4k3/1P6/8/8/8/8/K7/8 w - - 0 1", ""),
    ("underpromo-check", "8/P1k5/K7/8/8/8/8/8 w - - 0 1", ""),
    ("promo-many", "1n1r1b2/P1P1P1P1/7k/8/8/7K/p1p1p1p1/1N1R1B2 w - - 0 1", ""),
    // checks: double, discovered
    ("double-check", "4k3/8/8/8/4N3/8/8/4RK2 w - - 0 1", ""),
    ("discovered", "8/8/1P2K3/8/2n5/1q6/8/5k2 b - - 0 1", ""),
    ("pins-everywhere", "4k3/8/4r3/1b6/8/3N4/4B3/q2RK3 w - - 0 1", ""),
    ("check-evasions", "4k3/8/8/8/1b6/8/3P4/R3K2R w KQ - 0 1", ""),
    // mate / stalemate neighbourhoods
    ("kq-mate", "7k/8/5K2/6Q1/8/8/8/8 w - - 0 1", ""),
    ("kr-mate", "7k/8/6K1/8/8/8/8/R7 w - - 0 1", ""),
    ("back-rank", "6k1/5ppp/8/8/8/8/8/R3K3 w Q - 0 1", ""),
    ("smothered", "6rk/6pp/8/6N1/8/8/8/7K w - - 0 1", ""),
    ("stalemated", "7k/5Q2/6K1/8/8/8/8/8 b - - 0 1", ""),
    ("stalemate-near", "7k/8/4Q1K1/8/8/8/8/8 w - - 0 1", ""),
    ("self-stalemate", "K1k5/8/P7/8/8/8/8/8 w - - 0 1", ""),
    ("stale-and-mate", "8/k1P5/8/1K6/8/8/8/8 w - - 0 1", ""),
    ("stale-and-mate-b", "8/8/2k5/5q2/5n2/8/5K2/8 b - - 0 1", ""),
    ("mate-in-2-test", "8/1R6/2N2P2/2kP4/2P4P/3P4/8/6K1 w - - 1 94", ""),
    ("mated", "4r2k/p2q1RQb/1p5p/2ppP3/3P4/2P5/P1P1B1PP/5RK1 b - - 0 22", ""),
    // clocks
    ("clock-96", "8/8/4k3/8/8/3K4/8/R7 w - - 96 80", ""),
    ("clock-99", "8/8/4k3/8/8/3K4/4P3/R7 w - - 99 80", ""),
    ("clock-99-b", "8/3p4/4k3/8/8/3K4/8/R7 b - - 99 80", ""),
    ("clock-148", "8/8/4k3/8/8/3K4/4P3/R7 w - - 148 120", ""),
    ("clock-150", "8/8/2n1k3/8/8/3K4/8/R7 b - - 150 121", ""),
    ("move-5999", "r3k2r/8/8/8/8/8/8/R3K2R b KQkq - 10 5999", ""),
    // repetition near-miss by en passant: same placement with and without the ep file
    ("ep-near-repeat", "4k3/8/8/8/8/8/3P4/4K1Nn w - - 0 1", "d2d4 h1g3 g1f3 g3h1 f3g1"),
    ("threefold-test", "8/5ppk/7p/8/P1P1PQ2/8/Pr2N1KR/8 w - - 3 42", "f4f5 h7g8 f5c8 g8h7"),
    // a KING captures a rook that still carries a castling right (all four corners via mirrors)
    ("king-takes-h1-rook", "8/8/8/8/8/8/P5k1/4K2R b K - 0 1", ""),
    ("king-takes-a1-rook", "8/8/8/8/8/8/1k5P/R3K3 b Q - 0 1", ""),
    ("king-takes-h8-rook", "r3k2r/6K1/8/8/8/8/8/8 w kq - 3 40", ""),
    ("king-takes-a8-rook", "r3k2r/1K6/8/8/8/8/8/8 w kq - 3 40", ""),
    // non-rook pieces capture corner rooks that carry rights
    ("minor-takes-corner-rook", "r3k2r/8/8/3B4/3b4/8/8/R3K2R w KQkq - 0 1", ""),
    ("knight-takes-corner-rook", "r3k2r/8/1N4N1/8/8/1n4n1/8/R3K2R w KQkq - 0 1", ""),
    // one right left, then the king moves / castles
    ("one-right-left", "r3k2r/8/8/8/8/8/8/4K2R w Kkq - 0 1", ""),
    ("one-right-left-q", "r3k3/8/8/8/8/8/8/R3K2R w KQq - 0 1", ""),
];

/// Long games: the walk starts after 100+, 260+, 520+ and 1030+ plies (knights shuffling), so
/// that anything that depends on the LENGTH of the history (fixed-size windows, caps, counters)
/// is exercised. The half-move clock passes 100, 256 and 1000 on the way.
pub fn long_game(plies: usize) -> Vec<String> {
    let cycle = ["g1f3", "g8f6", "f3g1", "f6g8", "b1c3", "b8c6", "c3b1", "c6b8"];
    let mut v = vec!["e2e3".to_string(), "e7e6".to_string()];
    let mut k = 0;
    while v.len() < plies {
        v.push(cycle[k % cycle.len()].to_string());
        k += 1;
    }
    v
}

pub fn mirror_seed(s: &Seed) -> Option<Seed> {
    let p = Pos::from_fen(&s.fen).ok()?;
    let m = p.mirror();
    if m == p {
        return None;
    }
    Some(Seed {
        name: format!("{}~mirror", s.name),
        fen: m.fen(),
        prefix: s.prefix.iter().map(|x| mirror_uci(x)).collect(),
        class: s.class,
    })
}

pub fn all() -> Vec<Seed> {
    let mut v = Vec::new();
    for (class, list) in [(Class::Core, CORE), (Class::Feature, FEATURE)] {
        for (n, f, pre) in list {
            v.push(Seed {
                name: n.to_string(),
                fen: f.to_string(),
                prefix: pre.split_whitespace().map(str::to_string).collect(),
                class,
            });
        }
    }
    for n in [101usize, 262, 523, 1030] {
        v.push(Seed {
            name: format!("long-game-{n}"),
            fen: START.to_string(),
            prefix: long_game(n),
            class: Class::Feature,
        });
    }
    for (k, f) in include_str!("bench_fens.txt").lines().enumerate() {
        let f = f.trim();
        if !f.is_empty() {
            v.push(Seed {
                name: format!("bench{:02}", k + 1),
                fen: f.to_string(),
                prefix: vec![],
                class: Class::Bench,
            });
        }
    }
    let mirrors: Vec<Seed> = v.iter().filter_map(mirror_seed).collect();
    v.extend(mirrors);
    v
}

pub fn by_name(name: &str) -> Option<Seed> {
    all().into_iter().find(|s| s.name == name)
}
