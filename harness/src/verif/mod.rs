//! Harness entry: `verif <ID> --tier quick|thorough`, `verif replay <file>`, `verif selfcheck`.

pub mod boardprops;
pub mod cachekeys;
pub mod cutprops;
pub mod determ;
pub mod eng;
pub mod evalprop;
pub mod explore;
pub mod fenprop;
pub mod goprops;
pub mod infogrammar;
pub mod mates;
pub mod oracle;
pub mod posprop;
pub mod procprops;
pub mod refsearch;
pub mod report;
pub mod sched;
pub mod searchrun;
pub mod seeds;
pub mod session;
pub mod spos;
pub mod tablesprop;
pub mod uciproc;
pub mod workers;

pub struct Args {
    pub cmd: String,
    pub tier: String,
    pub rest: Vec<String>,
}

pub fn parse_args() -> Args {
    let a: Vec<String> = std::env::args().skip(1).collect();
    let mut tier = std::env::var("VERIF_TIER").unwrap_or_else(|_| "quick".into());
    let mut rest = vec![];
    let mut k = 1;
    while k < a.len() {
        if a[k] == "--tier" && k + 1 < a.len() {
            tier = a[k + 1].clone();
            k += 2;
        } else {
            rest.push(a[k].clone());
            k += 1;
        }
    }
    Args {
        cmd: a.first().cloned().unwrap_or_default(),
        tier,
        rest,
    }
}

pub fn main() -> i32 {
    let args = parse_args();
    if args.tier != "quick" && args.tier != "thorough" {
        eprintln!("tier must be quick or thorough");
        return 2;
    }
    if matches!(args.cmd.as_str(), "C09" | "C11" | "C13" | "C14" | "C16" | "selfcheck") {
        if let Err(e) = spos::validate() {
            eprintln!("MACHINERY: {e}");
            return 2;
        }
    }
    match args.cmd.as_str() {
        "selfcheck" => match oracle::self_check(true) {
            Ok(n) => {
                println!("oracle self-check ok: {n} perft nodes agree with the published totals");
                0
            }
            Err(e) => {
                eprintln!("MACHINERY: {e}");
                2
            }
        },
        "C01" | "C02" | "C03" | "C04" | "C05" => boardprops::run(&args),
        "C06" => tablesprop::run(&args),
        "C07" => fenprop::run(&args),
        "C17" => evalprop::run(&args),
        "C13" => cutprops::run(&args),
        "C08" => posprop::run(&args),
        "C09" => procprops::c09_run(&args),
        "C14" => procprops::c14_run(&args),
        "C15" => procprops::c15_run(&args),
        "C10" => sched::run(&args),
        "C11" => refsearch::run(&args),
        "C12" => mates::run(&args),
        "C16" => determ::run(&args),
        "fork-bench" => {
            // debug: time one fork sweep (single process)
            let d: u8 = args.rest.first().and_then(|x| x.parse().ok()).unwrap_or(4);
            searchrun::quiet_panics();
            let t = std::time::Instant::now();
            let n = cutprops::fork_bench(d);
            eprintln!("depth {d}: {n} forks in {:.2}s = {:.0} us/fork", t.elapsed().as_secs_f64(), t.elapsed().as_secs_f64() * 1e6 / n as f64);
            0
        }
        "tt-size" => {
            // debug: cache entries after a fixed-depth search
            let fen = args.rest.first().cloned().unwrap_or_default();
            let d: u8 = args.rest.get(1).and_then(|x| x.parse().ok()).unwrap_or(4);
            searchrun::quiet_panics();
            let (board, _, _) = searchrun::open(&fen, &[]).unwrap();
            let case = searchrun::Case { fen: fen.clone(), history: vec![], limits: searchrun::Limits::default(), max_depth: Some(d), cut: searchrun::Cut::None , elapsed_ms: None };
            let t = std::time::Instant::now();
            let out = searchrun::run(&board, &case, &searchrun::Opts { clear_cache: true, observe: false, neutral: false });
            let n = crate::board::transposition_table::TRANSPOSITION_TABLE.read().unwrap().len();
            eprintln!("depth {d}: nodes {} cache entries {n} in {:.2}s", out.nodes, t.elapsed().as_secs_f64());
            0
        }
        "gen-deepening" => {
            let n: usize = args.rest.first().and_then(|x| x.parse().ok()).unwrap_or(20);
            for (fen, d) in refsearch::generate_deepening(n, 0x5EED_C11) {
                println!("{d}\t{fen}");
            }
            0
        }
        "gen-mates" => {
            let n: usize = args.rest.first().and_then(|x| x.parse().ok()).unwrap_or(100);
            let profile: u8 = match args.rest.get(1).map(String::as_str) {
                Some("minor") => 1,
                Some("heavy") => 2,
                Some("promo") => 3,
                Some("greedy") => 4,
                Some("epcheck") => 5,
                Some("sparse") => 6,
                _ => 0,
            };
            for (fen, label) in mates::generate(n, [0x5EED_C12, 0x5EED_C12B, 0x5EED_C12C, 0x5EED_C12D, 0x5EED_C12E, 0x5EED_C12F, 0x5EED_C130][profile as usize], profile) {
                println!("{label}\t{fen}");
            }
            0
        }
        "mates-file" => {
            // debug: judge every "label\tfen" line of a file at depth 3 (fresh cache and after a depth-2 search)
            let path = args.rest.first().cloned().unwrap_or_default();
            let text = std::fs::read_to_string(&path).unwrap_or_default();
            searchrun::quiet_panics();
            let mut bad = 0;
            for line in text.lines() {
                let Some((_, fen)) = line.split_once('\t') else { continue };
                let Ok(pos) = oracle::Pos::from_fen(fen) else { continue };
                let c = mates::classify(&pos);
                for h in [vec![], vec![2u8]] {
                    for depth in [3u8, 4] {
                        match mates::run_history(fen, &h, depth) {
                            Some((_, Some(p))) => {
                                bad += 1;
                                println!("{fen}\t{h:?} d{depth}\tpanic {p}");
                            }
                            Some((Some(mv), None)) => {
                                if let Some(why) = mates::judge_move(&pos, &c, &mv) {
                                    bad += 1;
                                    println!("{fen}\t{h:?} d{depth}\t{why}");
                                }
                            }
                            _ => {}
                        }
                    }
                }
            }
            println!("misjudged {bad}");
            0
        }
        "stalemate-filter" => {
            // debug / family construction: keeps the "label\tfen" lines from which a stalemate is reachable within 3 plies
            let path = args.rest.first().cloned().unwrap_or_default();
            let text = std::fs::read_to_string(&path).unwrap_or_default();
            fn reach(p: &oracle::Pos, plies: u32) -> bool {
                let ms = p.legal_moves();
                if ms.is_empty() {
                    return !p.in_check(p.white);
                }
                plies > 0 && ms.iter().any(|m| reach(&p.make(m), plies - 1))
            }
            for line in text.lines() {
                let Some((_, fen)) = line.split_once('\t') else { continue };
                let Ok(pos) = oracle::Pos::from_fen(fen) else { continue };
                if reach(&pos, 3) {
                    println!("{line}");
                }
            }
            0
        }
        "flood-debug" => {
            let n: usize = args.rest.first().and_then(|x| x.parse().ok()).unwrap_or(10);
            let mut hits = 0;
            for k in 0..n {
                let t = std::time::Instant::now();
                match procprops::flood_round() {
                    Ok((lines, bad)) => {
                        hits += usize::from(bad.is_some());
                        println!("round {k}: {lines} lines {:?} {:?}", bad, t.elapsed());
                    }
                    Err(e) => println!("round {k}: machinery {e}"),
                }
            }
            println!("hits {hits}/{n}");
            0
        }
        "sched-debug" => {
            let idx: usize = args.rest.first().and_then(|x| x.parse().ok()).unwrap_or(0);
            let choices: Vec<usize> = args.rest.iter().skip(1).filter_map(|x| x.parse().ok()).collect();
            let (name, script) = sched::scripts().swap_remove(idx);
            let o = sched::execute(&script, &choices, 777);
            println!("script {name} {script:?}");
            println!("points  {:?}", o.choice_points);
            println!("choices {:?}", o.choices);
            for t in &o.trace {
                println!("  {t}");
            }
            println!("bestmoves {:?} readyok {} errors {:?}", o.bestmoves, o.readyoks, o.errors);
            println!("complaints {:?} machinery {:?}", o.complaints, o.machinery);
            0
        }
        "worker" => {
            let Some(id) = args.rest.first().cloned() else { return 2 };
            let Some(w) = workers::Worker::from_args(&args.rest) else {
                eprintln!("bad worker arguments");
                return 2;
            };
            match id.as_str() {
                "C13" => cutprops::worker(&args, &w),
                "C08" => posprop::worker(&args, &w),
                "C09" => goprops::c09_worker(&args, &w),
                "C14" => goprops::c14_worker(&args, &w),
                "C15" => procprops::c15_worker(&args, &w),
                "C11" => refsearch::worker(&args, &w),
                "C12" => mates::worker(&args, &w),
                "C16" => determ::worker(&args, &w),
                _ => 2,
            }
        }
        "replay" => {
            let Some(p) = args.rest.first() else {
                eprintln!("usage: verif replay <file>");
                return 2;
            };
            replay(p)
        }
        other => {
            eprintln!("unknown command {other}");
            2
        }
    }
}

fn replay(path: &str) -> i32 {
    let doc = match report::read_json(std::path::Path::new(path)) {
        Ok(d) => d,
        Err(e) => {
            eprintln!("MACHINERY: {e}");
            return 2;
        }
    };
    let prop = doc.get("property").and_then(|x| x.str()).unwrap_or("").to_string();
    match prop.as_str() {
        "C01" | "C02" | "C03" | "C04" | "C05" => boardprops::replay(&prop, &doc),
        "C07" => fenprop::replay(&doc),
        "C17" => evalprop::replay(&doc),
        "C13" => cutprops::replay(&doc),
        "C08" => posprop::replay(&doc),
        "C09" => goprops::replay_c09(&doc),
        "C14" => goprops::replay_c14(&doc),
        "C15" => procprops::replay_c15(&doc),
        "C10" => sched::replay(&doc),
        "C11" => refsearch::replay(&doc),
        "C12" => mates::replay(&doc),
        "C16" => determ::replay(&doc),
        _ => {
            eprintln!("no replay for property {prop}");
            2
        }
    }
}
