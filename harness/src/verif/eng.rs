//! Adapter: reads the engine's position and moves through its public API (plus the guarded
//! read-only accessors) and expresses them in the oracle's vocabulary.

use super::oracle::{Mv, Pos, B, K, N, P, Q, R};
use crate::board::piece::{Color, Kind};
use crate::board::ply::castling::{CastlingKind, CastlingStatus};
use crate::board::square::Square;
use crate::board::{Board, BoardBuilder, Ply};

pub fn kind_code(k: Kind) -> i8 {
    let (t, c) = match k {
        Kind::Pawn(c) => (P, c),
        Kind::Knight(c) => (N, c),
        Kind::Bishop(c) => (B, c),
        Kind::Rook(c) => (R, c),
        Kind::Queen(c) => (Q, c),
        Kind::King(c) => (K, c),
    };
    if c == Color::White {
        t
    } else {
        -t
    }
}

pub fn code_kind(p: i8) -> Kind {
    let c = if p > 0 { Color::White } else { Color::Black };
    match p.abs() {
        1 => Kind::Pawn(c),
        2 => Kind::Knight(c),
        3 => Kind::Bishop(c),
        4 => Kind::Rook(c),
        5 => Kind::Queen(c),
        _ => Kind::King(c),
    }
}

pub fn sq_idx(s: Square) -> u8 {
    s.rank * 8 + s.file
}

pub fn key(b: &Board) -> u64 {
    b.zkey.rce_verif_u64()
}

/// Everything the engine lets us observe about a position, as an oracle `Pos`.
pub fn observe(b: &Board) -> Pos {
    let mut p = Pos::empty();
    for s in 0..64u8 {
        if let Some(k) = b.get_piece(Square::from(s)) {
            p.sq[s as usize] = kind_code(k);
        }
    }
    p.white = b.current_turn == Color::White;
    p.castle = [
        b.castle_status(CastlingKind::WhiteKingside) == CastlingStatus::Available,
        b.castle_status(CastlingKind::WhiteQueenside) == CastlingStatus::Available,
        b.castle_status(CastlingKind::BlackKingside) == CastlingStatus::Available,
        b.castle_status(CastlingKind::BlackQueenside) == CastlingStatus::Available,
    ];
    p.ep_file = b.rce_verif_en_passant_file();
    p.halfmove = u32::from(b.get_halfmove_clock());
    p.fullmove = u32::from(b.fullmove_counter);
    p
}

pub fn ply_desc(p: &Ply) -> Mv {
    Mv {
        from: sq_idx(p.start),
        to: sq_idx(p.dest),
        piece: kind_code(p.piece),
        captured: p.captured_piece.map_or(0, kind_code),
        promo: p.promoted_to.map_or(0, kind_code),
        castle: p.is_castles,
        ep: p.en_passant,
        double: p.is_double_pawn_push,
    }
}

pub fn legal(b: &mut Board) -> Vec<(Mv, Ply)> {
    b.get_legal_moves().into_iter().map(|p| (ply_desc(&p), p)).collect()
}

pub fn startpos() -> Board {
    BoardBuilder::construct_starting_board().build()
}

pub fn in_check(b: &Board, white: bool) -> bool {
    b.is_in_check(if white { Color::White } else { Color::Black })
}

/// Describe the first difference between two observations (for violation messages).
pub fn diff(a: &Pos, b: &Pos) -> String {
    for s in 0..64 {
        if a.sq[s] != b.sq[s] {
            return format!(
                "square {}: engine {:?} vs reference {:?}",
                super::oracle::sq_name(s as u8),
                a.sq[s],
                b.sq[s]
            );
        }
    }
    if a.white != b.white {
        return format!("side to move: engine white={} vs reference white={}", a.white, b.white);
    }
    if a.castle != b.castle {
        return format!("castling rights [K,Q,k,q]: engine {:?} vs reference {:?}", a.castle, b.castle);
    }
    if a.ep_file != b.ep_file {
        return format!("en-passant file: engine {:?} vs reference {:?}", a.ep_file, b.ep_file);
    }
    if a.halfmove != b.halfmove {
        return format!("half-move clock: engine {} vs reference {}", a.halfmove, b.halfmove);
    }
    if a.fullmove != b.fullmove {
        return format!("full-move number: engine {} vs reference {}", a.fullmove, b.fullmove);
    }
    "no difference".to_string()
}
