//! C13 (and the shared cut-point machinery): every interruption point of a search is
//! enumerated - node budget N = 1..T, emulated `stop` at the k-th flag poll, virtual clock
//! expiring at the k-th limit check (movetime path and clock-management path) - and the
//! cache writes of the interrupted run are compared with those of the uninterrupted run.

use super::report::{self, i, obj, s, Coverage, Sink, J};
use super::searchrun::{self, Case, Cut, Limits, Opts, Out};
use super::spos::{self, SPos, P9};
use super::workers::{self, Worker};
use super::Args;
use crate::rce_verif::TtWrite;

#[derive(Clone, Copy, Debug, PartialEq, Eq)]
pub enum Kind {
    Nodes,
    Stop,
    ClockMovetime,
    ClockManaged,
    /// asymmetric clocks, and from the k-th check on 1 s has elapsed: MORE than the opponent's
    /// budget (100 ms) but far less than the mover's (30 s) - a correct engine is not cut at all
    ClockOwnBig,
    /// the same with the clocks swapped: more than the mover's own budget - a regular cut
    ClockOwnSmall,
    /// both clocks 2 s (budget 100 ms) and from the k-th check on 150 ms have elapsed: over the
    /// budget by less than a factor of two - a regular cut for an engine whose budget is fixed,
    /// but an engine that enlarges its budget on the way would have to decide that on sound data
    ClockJustOver,
}

impl Kind {
    fn name(self) -> &'static str {
        match self {
            Kind::Nodes => "node-budget",
            Kind::Stop => "stop",
            Kind::ClockMovetime => "clock-movetime",
            Kind::ClockManaged => "clock-managed",
            Kind::ClockOwnBig => "clock-own-big",
            Kind::ClockOwnSmall => "clock-own-small",
            Kind::ClockJustOver => "clock-just-over",
        }
    }
    fn parse(t: &str) -> Kind {
        match t {
            "stop" => Kind::Stop,
            "clock-movetime" => Kind::ClockMovetime,
            "clock-managed" => Kind::ClockManaged,
            "clock-own-big" => Kind::ClockOwnBig,
            "clock-own-small" => Kind::ClockOwnSmall,
            "clock-just-over" => Kind::ClockJustOver,
            _ => Kind::Nodes,
        }
    }
    /// the case for cut point k (k = 0: the uninterrupted baseline of this kind)
    fn case(self, p: &SPos, depth: u8, k: u64) -> Case {
        let mut limits = Limits::default();
        let cut;
        let mut elapsed_ms = None;
        // who moves at the root decides whose clock is "own"
        let white_root = {
            let stm_black = p.fen.split_whitespace().nth(1) == Some("b");
            (spos::hist(p).len() % 2 == 0) != stm_black
        };
        match self {
            Kind::Nodes => {
                limits.nodes = if k == 0 { None } else { Some(k) };
                cut = Cut::ClockNever;
            }
            Kind::Stop => {
                cut = if k == 0 { Cut::ClockNever } else { Cut::StopAt(k) };
            }
            Kind::ClockMovetime => {
                limits.movetime = Some(50);
                cut = if k == 0 { Cut::ClockNever } else { Cut::ClockAt(k) };
            }
            Kind::ClockManaged => {
                limits.wtime = Some(1000);
                limits.btime = Some(1000);
                limits.winc = Some(10);
                limits.binc = Some(10);
                cut = if k == 0 { Cut::ClockNever } else { Cut::ClockAt(k) };
            }
            Kind::ClockJustOver => {
                limits.wtime = Some(2_000);
                limits.btime = Some(2_000);
                elapsed_ms = Some(150);
                cut = if k == 0 { Cut::ClockNever } else { Cut::ClockAt(k) };
            }
            Kind::ClockOwnBig | Kind::ClockOwnSmall => {
                let own_big = self == Kind::ClockOwnBig;
                let (own, opp) = if own_big { (600_000, 2_000) } else { (2_000, 600_000) };
                if white_root {
                    limits.wtime = Some(own);
                    limits.btime = Some(opp);
                } else {
                    limits.wtime = Some(opp);
                    limits.btime = Some(own);
                }
                elapsed_ms = Some(1_000);
                cut = if k == 0 { Cut::ClockNever } else { Cut::ClockAt(k) };
            }
        }
        Case {
            fen: p.fen.to_string(),
            history: spos::hist(p),
            limits,
            max_depth: Some(depth),
            cut,
            elapsed_ms,
        }
    }
}

/// A write that demonstrably happens after the engine itself has noticed the cut: the running
/// flag is already clear. (Neither "clock fired" nor "nodes >= budget" is used: an engine that
/// polls the clock or the budget only every N nodes notices later, and what it writes until
/// then comes from completely searched subtrees. Those cuts are judged by the prefix oracle.)
fn aborted(w: &TtWrite) -> bool {
    !w.running
}

fn same(a: &TtWrite, b: &TtWrite) -> bool {
    a.site == b.site && a.key == b.key && a.entry == b.entry
}

fn describe(w: &TtWrite) -> String {
    format!(
        "site {} key {} score {} depth {} bound {:?} move {} (nodes {} budget {:?} running {} clock_fired {})",
        w.site,
        w.key,
        w.entry.score,
        w.entry.depth,
        w.entry.bound,
        w.entry.best_ply.to_notation(),
        w.nodes,
        w.node_budget,
        w.running,
        w.clock_fired
    )
}

/// The C13 oracle for one interrupted run against the uninterrupted one.
pub fn judge(full: &[TtWrite], cut: &Out) -> Option<String> {
    judge_kind(full, cut, true)
}

/// `stop_cut`: the interruption was an emulated stop (noticed by the very poll that delivers it),
/// so the cache snapshot taken at that moment must equal the final cache. For clock cuts the
/// snapshot is not used: a legitimately coarser polling of the clock notices later.
pub fn judge_kind(full: &[TtWrite], cut: &Out, stop_cut: bool) -> Option<String> {
    if let Some(p) = &cut.panicked {
        // a panic is judged by C09 (no bestmove); for C13 only the writes matter
        let _ = p;
    }
    // independent of the observed insert sites: nothing in the cache may change once an injected
    // stop / clock expiry has taken effect
    if let (true, Some(at_cut)) = (stop_cut, &cut.cache_at_cut) {
        if *at_cut != cut.cache_at_end {
            let changed = cut
                .cache_at_end
                .iter()
                .find(|(k, e)| !at_cut.iter().any(|(k2, e2)| k2 == k && e2 == e))
                .map(|(k, e)| format!("key {k} score {} depth {} bound {:?} move {}", e.score, e.depth, e.bound, e.best_ply.to_notation()))
                .unwrap_or_else(|| "an entry disappeared".into());
            return Some(format!(
                "the cache changed after the search had been cut: {} entries at the cut, {} at the end, e.g. {changed}",
                at_cut.len(),
                cut.cache_at_end.len()
            ));
        }
    }
    if let (true, Some((at_cut, at_end))) = (stop_cut, cut.cache_fp) {
        if at_cut != at_end {
            return Some(format!("the cache changed after the search had been cut: {} entries at the cut, {} at the end (fingerprints differ)", at_cut.0, at_end.0));
        }
    }
    for (n, w) in cut.writes.iter().enumerate() {
        if aborted(w) {
            return Some(format!("cache write #{n} happens after the search was cut: {}", describe(w)));
        }
        match full.get(n) {
            Some(f) if same(f, w) => {}
            Some(f) => {
                return Some(format!(
                    "cache write #{n} of the interrupted search differs from the uninterrupted search: {} vs {}",
                    describe(w),
                    describe(f)
                ))
            }
            None => return Some(format!("interrupted search wrote more entries than the uninterrupted one: {}", describe(w))),
        }
    }
    None
}

struct Pair {
    pos: &'static SPos,
    depth: u8,
    t: u64,
}

fn pairs(tier: &str) -> (Vec<Pair>, u64, u64) {
    let thorough = tier == "thorough";
    let cap_nodes: u64 = if thorough { 8000 } else { 2400 };
    let cap_other: u64 = if thorough { 3000 } else { 1000 };
    let npos = if thorough { P9.len() } else { 20 };
    let mut v = vec![];
    for p in P9.iter().take(npos) {
        let Ok((board, _, _)) = searchrun::open(p.fen, &spos::hist(p)) else { continue };
        for depth in 1..=5u8 {
            let c = Kind::Nodes.case(p, depth, 0);
            let out = searchrun::run(&board, &c, &Opts { clear_cache: true, observe: false, neutral: false });
            if out.panicked.is_some() || out.nodes > cap_nodes || out.nodes == 0 {
                break;
            }
            v.push(Pair { pos: p, depth, t: out.nodes });
        }
    }
    (v, cap_nodes, cap_other)
}

/// Fork sweep: EVERY flag poll of one (possibly large) search as a stop point, at the cost of one
/// search plus one fork per poll. The child is cut at its poll, unwinds, and is judged here:
/// no cache write may be observed after the cut and the cache contents must equal the snapshot
/// taken at the cut. Polls whose child fails are re-run the classical way (StopAt) for the report.
fn fork_sweep(w: &Worker, p: &SPos, depth: u8, kind: Kind, stride: u64, phase: u64) {
    let Ok((board, _, _)) = searchrun::open(p.fen, &spos::hist(p)) else { return };
    let opts = Opts { clear_cache: true, observe: true, neutral: false };
    let case = kind.case(p, depth, 0);
    let base = searchrun::run(&board, &case, &opts);
    let k_max = if kind == Kind::Stop { base.running_calls } else { base.clock_calls };
    if base.panicked.is_some() || k_max == 0 {
        return;
    }
    let per = k_max.div_ceil(w.nshards as u64);
    let lo = 1 + per * w.shard as u64;
    let hi = (lo + per - 1).min(k_max);
    if lo > hi {
        return;
    }
    crate::rce_verif::fork_at_clock(kind != Kind::Stop);
    crate::rce_verif::fork_stride(stride, phase);
    crate::rce_verif::fork_range(lo, hi);
    // (the forking run lasts as long as all its children together: generous watchdog allowance)
    let out = searchrun::run_within(&board, &case, &opts, std::time::Duration::from_secs(3 * 3600));
    if crate::rce_verif::fork_child().is_some() {
        // the child: it was cut at its poll; its writes must be a prefix of the uninterrupted
        // search's (inherited from before the fork), and for a stop nothing at all may follow
        let bad = judge_kind(&base.writes, &out, kind == Kind::Stop).is_some() || out.panicked.is_some();
        crate::rce_verif::fork_exit(i32::from(bad));
    }
    let (done, failed) = crate::rce_verif::fork_results();
    crate::rce_verif::fork_range(0, 0);
    crate::rce_verif::fork_at_clock(false);
    crate::rce_verif::fork_stride(1, 0);
    let expected = (lo..=hi).filter(|n| n % stride == phase % stride).count() as u64;
    if failed.is_empty() && (crate::rce_verif::fork_errors() > 0 || done != expected) {
        w.info("machinery", &format!("fork sweep of {} depth {depth} incomplete: {done} of {} children ran, {} fork() failures", p.fen, expected, crate::rce_verif::fork_errors()));
    }
    w.count("cut_runs", done);
    w.count(&format!("cut_runs:{}-by-fork", kind.name()), done);
    w.count("fork_sweeps", 1);
    w.max("largest_T_fork_sweep", base.nodes);
    if w.shard == 0 {
        w.info(&format!("fork:{}:d{depth}:{}", p.name, kind.name()), &format!("T={} cut points={k_max} stride={stride}", base.nodes));
    }
    for k in failed.into_iter().take(5) {
        let c = kind.case(p, depth, k);
        let again = searchrun::run(&board, &c, &opts);
        let why = judge_kind(&base.writes, &again, kind == Kind::Stop).unwrap_or_else(|| "the forked child reported a violation that the re-execution does not show".to_string());
        let mut r = c.json();
        if let J::Obj(v) = &mut r {
            v.push(("cut_kind".into(), s(kind.name())));
            v.push(("cut_point".into(), i(k)));
        }
        w.violation(&format!("{}|{}-fork|d{depth}|{k}", p.name, kind.name()), &format!("{} depth {depth} {} cut point {k}/{k_max}: {why}", p.fen, kind.name()), &r);
    }
}

pub fn fork_bench(depth: u8) -> u64 {
    let p = &P9[1];
    let (board, _, _) = searchrun::open(p.fen, &spos::hist(p)).unwrap();
    let opts = Opts { clear_cache: true, observe: true, neutral: false };
    let case = Kind::Stop.case(p, depth, 0);
    let base = searchrun::run(&board, &case, &opts);
    crate::rce_verif::fork_at_clock(false);
    crate::rce_verif::fork_stride(1, 0);
    crate::rce_verif::fork_range(1, base.running_calls);
    let out = searchrun::run_within(&board, &case, &opts, std::time::Duration::from_secs(3600));
    if crate::rce_verif::fork_child().is_some() {
        let bad = judge_kind(&base.writes, &out, true).is_some();
        crate::rce_verif::fork_exit(i32::from(bad));
    }
    let (done, _) = crate::rce_verif::fork_results();
    crate::rce_verif::fork_range(0, 0);
    done
}

pub fn worker(args: &Args, w: &Worker) -> i32 {
    searchrun::quiet_panics();
    let (ps, cap_nodes, cap_other) = pairs(&args.tier);
    if w.shard == 0 {
        w.info("pairs", &ps.iter().map(|p| format!("{}:d{}:T{}", p.pos.name, p.depth, p.t)).collect::<Vec<_>>().join(" "));
        w.info("caps", &format!("{cap_nodes} {cap_other} {}", ps.len()));
    }
    let opts = Opts { clear_cache: true, observe: true, neutral: false };
    let mut idx = 0usize;
    for pr in &ps {
        let Ok((board, _, _)) = searchrun::open(pr.pos.fen, &spos::hist(pr.pos)) else { continue };
        for kind in [Kind::Nodes, Kind::Stop, Kind::ClockMovetime, Kind::ClockManaged, Kind::ClockOwnBig, Kind::ClockOwnSmall, Kind::ClockJustOver] {
            if kind != Kind::Nodes && pr.t > cap_other {
                continue;
            }
            // uninterrupted baseline of this kind (also tells how many cut points exist)
            let base_case = kind.case(pr.pos, pr.depth, 0);
            let base = searchrun::run(&board, &base_case, &opts);
            let k_max = match kind {
                Kind::Nodes => base.nodes,
                Kind::Stop => base.running_calls,
                _ => base.clock_calls,
            };
            // every entry the uninterrupted search left in the cache must have been seen by the
            // observer hook; otherwise an insert site exists that the hooks do not cover and the
            // write-level oracle would be blind to it (machinery error, not a verdict)
            if kind == Kind::Nodes {
                let unseen = {
                    let tt = crate::board::transposition_table::TRANSPOSITION_TABLE.read().unwrap_or_else(|e| e.into_inner());
                    tt.iter().filter(|(k, e)| !base.writes.iter().any(|wr| wr.key == k.rce_verif_u64() && wr.entry == **e)).count()
                };
                if unseen > 0 && idx % w.nshards == w.shard {
                    // not a verdict: the write-level oracle stays sound for the hooked sites, and the
                    // content-level oracle (stop / clock cuts) covers every site; node-budget cuts of
                    // the unhooked site are not covered, which the evidence says
                    w.count("cache_entries_written_by_an_unhooked_insert_site", unseen as u64);
                }
            }
            if idx % w.nshards == w.shard {
                w.count("pairs_x_kinds", 1);
                w.max("largest_T", base.nodes);
                if base.writes.iter().any(aborted) || base.panicked.is_some() {
                    w.violation(
                        &format!("{}|baseline", base_case.sig()),
                        &format!("uninterrupted search of {} depth {} reports an aborted write or panicked: {:?}", pr.pos.fen, pr.depth, base.panicked),
                        &base_case.json(),
                    );
                }
            }
            for k in 1..=k_max {
                idx += 1;
                if !w.mine(idx) {
                    continue;
                }
                let c = kind.case(pr.pos, pr.depth, k);
                let out = searchrun::run(&board, &c, &opts);
                w.count("cut_runs", 1);
                w.count(&format!("cut_runs:{}", kind.name()), 1);
                w.count("cache_writes_compared", out.writes.len() as u64);
                if out.writes.len() < base.writes.len() {
                    w.count("cut_runs_really_shorter", 1);
                }
                if k == k_max / 2 + 1 {
                    w.sample(obj(vec![
                        ("case", c.json()),
                        ("kind", s(kind.name())),
                        ("cut_point", i(k)),
                        ("of", i(k_max)),
                        ("writes_before_cut", i(out.writes.len() as u64)),
                        ("writes_uninterrupted", i(base.writes.len() as u64)),
                    ]));
                }
                if let Some(why) = judge_kind(&base.writes, &out, kind == Kind::Stop) {
                    let mut r = c.json();
                    if let J::Obj(v) = &mut r {
                        v.push(("cut_kind".into(), s(kind.name())));
                        v.push(("cut_point".into(), i(k)));
                        v.push(("name".into(), s(pr.pos.name)));
                    }
                    w.violation(&format!("{}|{}|d{}|{}", pr.pos.name, kind.name(), pr.depth, k), &format!("{} depth {} {} cut point {k}/{k_max}: {why}", pr.pos.fen, pr.depth, kind.name()), &r);
                }
            }
            // warm start: the cache already holds a completed search one ply shallower
            if kind == Kind::Nodes && pr.depth >= 2 && pr.t <= cap_other {
                let warm = kind.case(pr.pos, pr.depth - 1, 0);
                let keep = Opts { clear_cache: false, observe: true, neutral: false };
                let _ = searchrun::run(&board, &warm, &opts);
                let base_w = searchrun::run(&board, &base_case, &keep);
                for k in 1..=base_w.nodes {
                    idx += 1;
                    if !w.mine(idx) {
                        continue;
                    }
                    let _ = searchrun::run(&board, &warm, &opts);
                    let c = kind.case(pr.pos, pr.depth, k);
                    let out = searchrun::run(&board, &c, &keep);
                    w.count("cut_runs", 1);
                    w.count("cut_runs:warm-cache", 1);
                    w.count("cache_writes_compared", out.writes.len() as u64);
                    if let Some(why) = judge(&base_w.writes, &out) {
                        let mut r = c.json();
                        if let J::Obj(v) = &mut r {
                            v.push(("cut_kind".into(), s(kind.name())));
                            v.push(("cut_point".into(), i(k)));
                            v.push(("warm_depth".into(), i(pr.depth - 1)));
                        }
                        w.violation(&format!("{}|warm|d{}|{}", pr.pos.name, pr.depth, k), &format!("{} depth {} (cache warmed by a depth-{} search) node budget {k}: {why}", pr.pos.fen, pr.depth, pr.depth - 1), &r);
                    }
                }
            }
        }
    }
    // large searches: every cut point through fork-based checkpointing
    let thorough = args.tier == "thorough";
    for p in P9.iter().take(if thorough { 20 } else { 6 }) {
        let maxd: u8 = if thorough { 6 } else { 5 };
        for depth in 3..=maxd {
            // size of the uninterrupted search decides whether this pair is swept
            let Ok((board, _, _)) = searchrun::open(p.fen, &spos::hist(p)) else { continue };
            let probe = searchrun::run(&board, &Kind::Stop.case(p, depth, 0), &Opts { clear_cache: true, observe: false, neutral: false });
            let big = p.name == "kiwipete";
            let cap = if thorough { 300_000 } else if big { 150_000 } else { 12_000 };
            if probe.panicked.is_some() || probe.nodes > cap {
                break;
            }
            if probe.nodes <= cap_other {
                continue; // already enumerated the classical way above
            }
            if thorough && probe.nodes > 60_000 {
                // thorough tier, very large search: every poll as a stop, every limit check as a
                // clock expiry on the clock-management path
                fork_sweep(w, p, depth, Kind::Stop, 1, 0);
                fork_sweep(w, p, depth, Kind::ClockManaged, 1, 0);
            } else if !thorough && probe.nodes > 12_000 {
                // quick tier, large search: every second poll as a stop, every other limit check as
                // a clock expiry (the thorough tier takes every one)
                fork_sweep(w, p, depth, Kind::Stop, 2, 0);
                fork_sweep(w, p, depth, Kind::ClockManaged, 2, 1);
            } else {
                // (own-big: the child is NOT cut and finishes the whole search - thorough only)
                let kinds: &[Kind] = if thorough && probe.nodes <= 12_000 { &[Kind::Stop, Kind::ClockMovetime, Kind::ClockManaged, Kind::ClockJustOver, Kind::ClockOwnBig] } else { &[Kind::Stop, Kind::ClockMovetime, Kind::ClockManaged, Kind::ClockJustOver] };
                for &kind in kinds {
                    fork_sweep(w, p, depth, kind, 1, 0);
                }
            }
        }
    }
    w.done()
}

pub fn run(args: &Args) -> i32 {
    let sink = Sink::new("C13", &args.tier);
    let merged = match workers::fan_out("C13", &args.tier, &sink, &[]) {
        Ok(m) => m,
        Err(e) => {
            eprintln!("MACHINERY: {e}");
            return 2;
        }
    };
    if let Some(m) = merged.infos.get("machinery") {
        // an incomplete sweep decides nothing by itself - but violations found elsewhere in the
        // same run stand, and they come first
        if sink.count() == 0 {
            eprintln!("MACHINERY: {m}");
            return 2;
        }
        eprintln!("note: {m} (violations were found, they are reported)");
    }
    if merged.get("cache_entries_written_by_an_unhooked_insert_site") > 0 {
        eprintln!("WARNING: the engine writes cache entries at a site the observer hooks do not cover; node-budget cuts are judged for the hooked sites only");
    }
    let caps: Vec<u64> = merged.infos.get("caps").map(|t| t.split_whitespace().filter_map(|x| x.parse().ok()).collect()).unwrap_or_default();
    let (cap_nodes, cap_other, npairs) = (caps.first().copied().unwrap_or(0), caps.get(1).copied().unwrap_or(0), caps.get(2).copied().unwrap_or(0));
    let runs = merged.get("cut_runs");
    let mut extra: Vec<(String, J)> = merged.counters.iter().map(|(k, v)| (k.replace(':', "_"), i(*v))).collect();
    extra.push(("position_depth_pairs".into(), i(npairs)));
    extra.push(("pairs".into(), s(merged.infos.get("pairs").cloned().unwrap_or_default())));
    extra.push((
        "bound".into(),
        s(format!("(position, depth) pairs whose uninterrupted search has T <= {cap_nodes} nodes: EVERY node budget 1..T; pairs with T <= {cap_other}: additionally every emulated stop (k-th flag poll), every clock expiry (k-th limit check) on both clock paths, and every node budget on a cache warmed by the depth-1-shallower search; pairs above the cap are left out, not strided")),
    ));
    let cov = Coverage {
        states: runs + npairs,
        transitions: merged.get("cache_writes_compared").max(1),
        traces: runs,
        samples: if merged.samples.is_empty() { vec![s("no cut runs")] } else { merged.samples.clone() },
        exhaustive: None,
        extra,
        assumptions: vec![
            "interruption is injected deterministically: node budget through the engine's own limit, stop by clearing the shared flag at the k-th poll, time by a virtual clock that jumps past every limit at the k-th limit check".into(),
            "the only state kept for later searches is the transposition table (killers live in the per-search Info)".into(),
        ],
    };
    report::finish(&sink, cov)
}

pub fn replay(doc: &J) -> i32 {
    let Some(r) = doc.get("replay") else { return 2 };
    let Some(case) = Case::from_json(r) else { return 2 };
    let kind = Kind::parse(r.get("cut_kind").and_then(|x| x.str()).unwrap_or("node-budget"));
    let warm = r.get("warm_depth").and_then(|x| x.int());
    searchrun::quiet_panics();
    let Ok((board, _, _)) = searchrun::open(&case.fen, &case.history) else { return 2 };
    let opts = Opts { clear_cache: true, observe: true, neutral: false };
    let keep = Opts { clear_cache: false, observe: true, neutral: false };
    let mut verdicts = vec![];
    for _ in 0..2 {
        let mut base_case = case.clone();
        base_case.cut = Cut::ClockNever;
        if kind == Kind::Nodes {
            base_case.limits.nodes = None;
        }
        let (base, out) = if let Some(wd) = warm {
            let mut wc = base_case.clone();
            wc.max_depth = Some(wd as u8);
            let _ = searchrun::run(&board, &wc, &opts);
            let base = searchrun::run(&board, &base_case, &keep);
            let _ = searchrun::run(&board, &wc, &opts);
            (base, searchrun::run(&board, &case, &keep))
        } else {
            (searchrun::run(&board, &base_case, &opts), searchrun::run(&board, &case, &opts))
        };
        verdicts.push(judge_kind(&base.writes, &out, kind == Kind::Stop));
    }
    if verdicts[0] != verdicts[1] {
        eprintln!("MACHINERY: replay not reproducible");
        return 2;
    }
    match &verdicts[0] {
        Some(why) => {
            println!("violation reproduced: {why}");
            1
        }
        None => {
            println!("no violation");
            0
        }
    }
}
