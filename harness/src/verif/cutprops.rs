//! C13 (and the shared cut-point machinery): every interruption point of a search is
//! enumerated - node budget N = 1..T, emulated `stop` at the k-th flag poll, virtual clock
//! expiring at the k-th limit check (movetime path and clock-management path) - and the
//! cache writes of the interrupted run are compared with those of the uninterrupted run.

use super::report::{self, i, obj, s, Coverage, Sink, J};
use super::searchrun::{self, Case, Cut, Limits, Opts, Out};
use super::spos::{self, SPos, P9};
use super::workers::{self, Worker};
use super::Args;
use crate::rce_verif::TtWrite;

#[derive(Clone, Copy, Debug, PartialEq, Eq)]
pub enum Kind {
    Nodes,
    Stop,
    ClockMovetime,
    ClockManaged,
}

impl Kind {
    fn name(self) -> &'static str {
        match self {
            Kind::Nodes => "node-budget",
            Kind::Stop => "stop",
            Kind::ClockMovetime => "clock-movetime",
            Kind::ClockManaged => "clock-managed",
        }
    }
    fn parse(t: &str) -> Kind {
        match t {
            "stop" => Kind::Stop,
            "clock-movetime" => Kind::ClockMovetime,
            "clock-managed" => Kind::ClockManaged,
            _ => Kind::Nodes,
        }
    }
    /// the case for cut point k (k = 0: the uninterrupted baseline of this kind)
    fn case(self, p: &SPos, depth: u8, k: u64) -> Case {
        let mut limits = Limits::default();
        let cut;
        match self {
            Kind::Nodes => {
                limits.nodes = if k == 0 { None } else { Some(k) };
                cut = Cut::ClockNever;
            }
            Kind::Stop => {
                cut = if k == 0 { Cut::ClockNever } else { Cut::StopAt(k) };
            }
            Kind::ClockMovetime => {
                limits.movetime = Some(50);
                cut = if k == 0 { Cut::ClockNever } else { Cut::ClockAt(k) };
            }
            Kind::ClockManaged => {
                limits.wtime = Some(1000);
                limits.btime = Some(1000);
                limits.winc = Some(10);
                limits.binc = Some(10);
                cut = if k == 0 { Cut::ClockNever } else { Cut::ClockAt(k) };
            }
        }
        Case {
            fen: p.fen.to_string(),
            history: spos::hist(p),
            limits,
            max_depth: Some(depth),
            cut,
        }
    }
}

fn aborted(w: &TtWrite) -> bool {
    w.node_budget.is_some_and(|b| w.nodes >= b) || !w.running || w.clock_fired
}

fn same(a: &TtWrite, b: &TtWrite) -> bool {
    a.site == b.site && a.key == b.key && a.entry == b.entry
}

fn describe(w: &TtWrite) -> String {
    format!(
        "site {} key {} score {} depth {} bound {:?} move {} (nodes {} budget {:?} running {} clock_fired {})",
        w.site,
        w.key,
        w.entry.score,
        w.entry.depth,
        w.entry.bound,
        w.entry.best_ply.to_notation(),
        w.nodes,
        w.node_budget,
        w.running,
        w.clock_fired
    )
}

/// The C13 oracle for one interrupted run against the uninterrupted one.
pub fn judge(full: &[TtWrite], cut: &Out) -> Option<String> {
    if let Some(p) = &cut.panicked {
        // a panic is judged by C09 (no bestmove); for C13 only the writes matter
        let _ = p;
    }
    for (n, w) in cut.writes.iter().enumerate() {
        if aborted(w) {
            return Some(format!("cache write #{n} happens after the search was cut: {}", describe(w)));
        }
        match full.get(n) {
            Some(f) if same(f, w) => {}
            Some(f) => {
                return Some(format!(
                    "cache write #{n} of the interrupted search differs from the uninterrupted search: {} vs {}",
                    describe(w),
                    describe(f)
                ))
            }
            None => return Some(format!("interrupted search wrote more entries than the uninterrupted one: {}", describe(w))),
        }
    }
    None
}

struct Pair {
    pos: &'static SPos,
    depth: u8,
    t: u64,
}

fn pairs(tier: &str) -> (Vec<Pair>, u64, u64) {
    let thorough = tier == "thorough";
    let cap_nodes: u64 = if thorough { 8000 } else { 2400 };
    let cap_other: u64 = if thorough { 3000 } else { 1000 };
    let npos = if thorough { P9.len() } else { 20 };
    let mut v = vec![];
    for p in P9.iter().take(npos) {
        let Ok((board, _, _)) = searchrun::open(p.fen, &spos::hist(p)) else { continue };
        for depth in 1..=5u8 {
            let c = Kind::Nodes.case(p, depth, 0);
            let out = searchrun::run(&board, &c, &Opts { clear_cache: true, observe: false, neutral: false });
            if out.panicked.is_some() || out.nodes > cap_nodes || out.nodes == 0 {
                break;
            }
            v.push(Pair { pos: p, depth, t: out.nodes });
        }
    }
    (v, cap_nodes, cap_other)
}

pub fn worker(args: &Args, w: &Worker) -> i32 {
    searchrun::quiet_panics();
    let (ps, cap_nodes, cap_other) = pairs(&args.tier);
    if w.shard == 0 {
        w.info("pairs", &ps.iter().map(|p| format!("{}:d{}:T{}", p.pos.name, p.depth, p.t)).collect::<Vec<_>>().join(" "));
        w.info("caps", &format!("{cap_nodes} {cap_other} {}", ps.len()));
    }
    let opts = Opts { clear_cache: true, observe: true, neutral: false };
    let mut idx = 0usize;
    for pr in &ps {
        let Ok((board, _, _)) = searchrun::open(pr.pos.fen, &spos::hist(pr.pos)) else { continue };
        for kind in [Kind::Nodes, Kind::Stop, Kind::ClockMovetime, Kind::ClockManaged] {
            if kind != Kind::Nodes && pr.t > cap_other {
                continue;
            }
            // uninterrupted baseline of this kind (also tells how many cut points exist)
            let base_case = kind.case(pr.pos, pr.depth, 0);
            let base = searchrun::run(&board, &base_case, &opts);
            let k_max = match kind {
                Kind::Nodes => base.nodes,
                Kind::Stop => base.running_calls,
                _ => base.clock_calls,
            };
            if idx % w.nshards == w.shard {
                w.count("pairs_x_kinds", 1);
                w.max("largest_T", base.nodes);
                if base.writes.iter().any(aborted) || base.panicked.is_some() {
                    w.violation(
                        &format!("{}|baseline", base_case.sig()),
                        &format!("uninterrupted search of {} depth {} reports an aborted write or panicked: {:?}", pr.pos.fen, pr.depth, base.panicked),
                        &base_case.json(),
                    );
                }
            }
            for k in 1..=k_max {
                idx += 1;
                if !w.mine(idx) {
                    continue;
                }
                let c = kind.case(pr.pos, pr.depth, k);
                let out = searchrun::run(&board, &c, &opts);
                w.count("cut_runs", 1);
                w.count(&format!("cut_runs:{}", kind.name()), 1);
                w.count("cache_writes_compared", out.writes.len() as u64);
                if out.writes.len() < base.writes.len() {
                    w.count("cut_runs_really_shorter", 1);
                }
                if k == k_max / 2 + 1 {
                    w.sample(obj(vec![
                        ("case", c.json()),
                        ("kind", s(kind.name())),
                        ("cut_point", i(k)),
                        ("of", i(k_max)),
                        ("writes_before_cut", i(out.writes.len() as u64)),
                        ("writes_uninterrupted", i(base.writes.len() as u64)),
                    ]));
                }
                if let Some(why) = judge(&base.writes, &out) {
                    let mut r = c.json();
                    if let J::Obj(v) = &mut r {
                        v.push(("cut_kind".into(), s(kind.name())));
                        v.push(("cut_point".into(), i(k)));
                        v.push(("name".into(), s(pr.pos.name)));
                    }
                    w.violation(&format!("{}|{}|d{}|{}", pr.pos.name, kind.name(), pr.depth, k), &format!("{} depth {} {} cut point {k}/{k_max}: {why}", pr.pos.fen, pr.depth, kind.name()), &r);
                }
            }
            // warm start: the cache already holds a completed search one ply shallower
            if kind == Kind::Nodes && pr.depth >= 2 && pr.t <= cap_other {
                let warm = kind.case(pr.pos, pr.depth - 1, 0);
                let keep = Opts { clear_cache: false, observe: true, neutral: false };
                let _ = searchrun::run(&board, &warm, &opts);
                let base_w = searchrun::run(&board, &base_case, &keep);
                for k in 1..=base_w.nodes {
                    idx += 1;
                    if !w.mine(idx) {
                        continue;
                    }
                    let _ = searchrun::run(&board, &warm, &opts);
                    let c = kind.case(pr.pos, pr.depth, k);
                    let out = searchrun::run(&board, &c, &keep);
                    w.count("cut_runs", 1);
                    w.count("cut_runs:warm-cache", 1);
                    w.count("cache_writes_compared", out.writes.len() as u64);
                    if let Some(why) = judge(&base_w.writes, &out) {
                        let mut r = c.json();
                        if let J::Obj(v) = &mut r {
                            v.push(("cut_kind".into(), s(kind.name())));
                            v.push(("cut_point".into(), i(k)));
                            v.push(("warm_depth".into(), i(pr.depth - 1)));
                        }
                        w.violation(&format!("{}|warm|d{}|{}", pr.pos.name, pr.depth, k), &format!("{} depth {} (cache warmed by a depth-{} search) node budget {k}: {why}", pr.pos.fen, pr.depth, pr.depth - 1), &r);
                    }
                }
            }
        }
    }
    w.done()
}

pub fn run(args: &Args) -> i32 {
    let sink = Sink::new("C13", &args.tier);
    let merged = match workers::fan_out("C13", &args.tier, &sink, &[]) {
        Ok(m) => m,
        Err(e) => {
            eprintln!("MACHINERY: {e}");
            return 2;
        }
    };
    let caps: Vec<u64> = merged.infos.get("caps").map(|t| t.split_whitespace().filter_map(|x| x.parse().ok()).collect()).unwrap_or_default();
    let (cap_nodes, cap_other, npairs) = (caps.first().copied().unwrap_or(0), caps.get(1).copied().unwrap_or(0), caps.get(2).copied().unwrap_or(0));
    let runs = merged.get("cut_runs");
    let mut extra: Vec<(String, J)> = merged.counters.iter().map(|(k, v)| (k.replace(':', "_"), i(*v))).collect();
    extra.push(("position_depth_pairs".into(), i(npairs)));
    extra.push(("pairs".into(), s(merged.infos.get("pairs").cloned().unwrap_or_default())));
    extra.push((
        "bound".into(),
        s(format!("(position, depth) pairs whose uninterrupted search has T <= {cap_nodes} nodes: EVERY node budget 1..T; pairs with T <= {cap_other}: additionally every emulated stop (k-th flag poll), every clock expiry (k-th limit check) on both clock paths, and every node budget on a cache warmed by the depth-1-shallower search; pairs above the cap are left out, not strided")),
    ));
    let cov = Coverage {
        states: runs + npairs,
        transitions: merged.get("cache_writes_compared").max(1),
        traces: runs,
        samples: if merged.samples.is_empty() { vec![s("no cut runs")] } else { merged.samples.clone() },
        exhaustive: None,
        extra,
        assumptions: vec![
            "interruption is injected deterministically: node budget through the engine's own limit, stop by clearing the shared flag at the k-th poll, time by a virtual clock that jumps past every limit at the k-th limit check".into(),
            "the only state kept for later searches is the transposition table (killers live in the per-search Info)".into(),
        ],
    };
    report::finish(&sink, cov)
}

pub fn replay(doc: &J) -> i32 {
    let Some(r) = doc.get("replay") else { return 2 };
    let Some(case) = Case::from_json(r) else { return 2 };
    let kind = Kind::parse(r.get("cut_kind").and_then(|x| x.str()).unwrap_or("node-budget"));
    let warm = r.get("warm_depth").and_then(|x| x.int());
    searchrun::quiet_panics();
    let Ok((board, _, _)) = searchrun::open(&case.fen, &case.history) else { return 2 };
    let opts = Opts { clear_cache: true, observe: true, neutral: false };
    let keep = Opts { clear_cache: false, observe: true, neutral: false };
    let mut verdicts = vec![];
    for _ in 0..2 {
        let mut base_case = case.clone();
        base_case.cut = Cut::ClockNever;
        if kind == Kind::Nodes {
            base_case.limits.nodes = None;
        }
        let (base, out) = if let Some(wd) = warm {
            let mut wc = base_case.clone();
            wc.max_depth = Some(wd as u8);
            let _ = searchrun::run(&board, &wc, &opts);
            let base = searchrun::run(&board, &base_case, &keep);
            let _ = searchrun::run(&board, &wc, &opts);
            (base, searchrun::run(&board, &case, &keep))
        } else {
            (searchrun::run(&board, &base_case, &opts), searchrun::run(&board, &case, &opts))
        };
        verdicts.push(judge(&base.writes, &out));
    }
    if verdicts[0] != verdicts[1] {
        eprintln!("MACHINERY: replay not reproducible");
        return 2;
    }
    match &verdicts[0] {
        Some(why) => {
            println!("violation reproduced: {why}");
            1
        }
        None => {
            println!("no violation");
            0
        }
    }
}
