//! Process-level layers on the REAL executable and the parents of C08/C09/C14/C15.

use super::eng;
use super::explore::{self, Budget, PathRef, Prop, Stats, Tables, Walk};
use super::goprops;
use super::infogrammar;
use super::oracle::{self, Mv, Pos};
use super::report::{self, arr_s, i, obj, s, Coverage, Sink, J};
use super::searchrun::Limits;
use super::seeds;
use super::session::{self, End, Model};
use super::spos::{self, P9};
use super::workers::{self, Worker};
use super::Args;
use crate::board::Board;
use std::sync::atomic::{AtomicU64, AtomicUsize, Ordering};
use std::sync::Mutex;

fn par_for<T: Sync>(items: &[T], threads: usize, f: &(dyn Fn(usize, &T) + Sync)) {
    let next = AtomicUsize::new(0);
    std::thread::scope(|sc| {
        for _ in 0..threads.min(items.len().max(1)) {
            sc.spawn(|| loop {
                let k = next.fetch_add(1, Ordering::Relaxed);
                if k >= items.len() {
                    break;
                }
                f(k, &items[k]);
            });
        }
    });
}

fn position_line(fen: &str, history: &[String]) -> String {
    let mut l = if fen == seeds::START { "position startpos".to_string() } else { format!("position fen {fen}") };
    if !history.is_empty() {
        l.push_str(" moves ");
        l.push_str(&history.join(" "));
    }
    l
}

// ---------------------------------------------------------------------------------------
// C09
// ---------------------------------------------------------------------------------------

pub fn c09_run(args: &Args) -> i32 {
    let thorough = args.tier == "thorough";
    let sink = Sink::new("C09", &args.tier);
    let merged = match workers::fan_out("C09", &args.tier, &sink, &[]) {
        Ok(m) => m,
        Err(e) => {
            eprintln!("MACHINERY: {e}");
            return 2;
        }
    };
    if let Some(m) = merged.infos.get("machinery") {
        // an incomplete sweep decides nothing by itself - but violations found elsewhere in the
        // same run stand, and they come first
        if sink.count() == 0 {
            eprintln!("MACHINERY: {m}");
            return 2;
        }
        eprintln!("note: {m} (violations were found, they are reported)");
    }
    for h in &merged.hung {
        let case = J::parse(h).unwrap_or(J::Null);
        sink.report(
            format!("hung|{h}"),
            format!("a search neither honoured its limits nor the stop flag for more than 20 s - the go is never answered: {h}"),
            case,
        );
    }
    // E2: the real executable, real clock, real threads
    let npos = if thorough { 12 } else { 4 };
    let stride = if thorough { 1 } else { 17 };
    let mut sessions: Vec<Vec<String>> = vec![];
    for (pi, p) in P9.iter().take(npos).enumerate() {
        let pl = position_line(p.fen, &spos::hist(p));
        let codes: Vec<u32> = (0..3u32.pow(7)).filter(|c| (c + pi as u32) % stride == 0).collect();
        // three `go`s per session, each followed by isready
        for chunk in codes.chunks(3) {
            let mut lines = vec![pl.clone(), "isready".to_string()];
            for c in chunk {
                let l = goprops::assignment(*c);
                let g = l.go_line();
                if session::go_bounded(&g) {
                    lines.push(g);
                } else {
                    lines.push("go infinite".to_string());
                    lines.push("stop".to_string());
                }
                lines.push("isready".to_string());
            }
            sessions.push(lines);
        }
    }
    // back-to-back: the next go is sent right after stop, without waiting for the bestmove
    for p in P9.iter().take(npos) {
        let pl = position_line(p.fen, &spos::hist(p));
        sessions.push(vec![pl.clone(), "go infinite".into(), "stop!".into(), "go depth 1".into(), "isready".into()]);
        sessions.push(vec![pl.clone(), "go infinite".into(), "stop!".into(), "go infinite".into(), "stop!".into(), "go movetime 30".into(), "isready".into()]);
    }
    // capture-dense positions with the real clock
    for p in spos::DENSE.iter() {
        let pl = position_line(p.fen, &spos::hist(p));
        sessions.push(vec![pl.clone(), "go movetime 100".into(), "isready".into(), "go nodes 500".into(), "isready".into()]);
        sessions.push(vec![pl.clone(), "go wtime 2000 btime 2000".into(), "isready".into(), "go infinite".into(), "stop".into(), "isready".into()]);
    }
    // the mover's own clock is tiny and the OPPONENT's increment enormous (and the other way
    // round): only the mover's clock and increment may enter the budget
    sessions.push(vec!["position startpos".into(), "go wtime 200 binc 120000".into(), "isready".into(), "go wtime 200 btime 1000000 binc 120000".into(), "isready".into()]);
    sessions.push(vec!["position startpos moves e2e4".into(), "go btime 200 winc 120000".into(), "isready".into(), "go btime 200 wtime 1000000 winc 120000".into(), "isready".into()]);
    // clocks that leave a budget of a few milliseconds
    sessions.push(vec!["position startpos".into(), "go wtime 150 btime 150".into(), "isready".into(), "go wtime 21 btime 21 winc 1 binc 1".into(), "isready".into()]);
    sessions.push(vec!["position startpos moves e2e4".into(), "go wtime 150 btime 150".into(), "isready".into(), "go wtime 39 btime 39".into(), "isready".into()]);
    let gos = AtomicU64::new(0);
    let max_wait = AtomicU64::new(0);
    let machinery: Mutex<Vec<String>> = Mutex::new(vec![]);
    par_for(&sessions, 16, &|_, lines| match session::run(lines, End::Quit, true) {
        Err(e) => machinery.lock().unwrap().push(e),
        Ok(res) => {
            gos.fetch_add(res.gos.len() as u64, Ordering::Relaxed);
            for g in &res.gos {
                max_wait.fetch_max(g.waited_ms as u64, Ordering::Relaxed);
            }
            let mut bad = session::judge_gos(&res);
            bad.extend(res.complaints.iter().filter(|c| !c.starts_with("panic on stderr") || true).cloned());
            if let Some(first) = bad.first() {
                sink.report(format!("session|{}", lines.join(";")), format!("real executable, session {:?}: {first}", lines), session::session_json(lines, "quit"));
            }
        }
    });
    if let Some(e) = machinery.into_inner().unwrap().first() {
        eprintln!("MACHINERY: {e}");
        return 2;
    }
    let searches = merged.get("searches");
    let mut extra: Vec<(String, J)> = merged.counters.iter().map(|(k, v)| (format!("inproc_{}", k.replace(':', "_")), i(*v))).collect();
    extra.push(("process_sessions".into(), i(sessions.len() as u64)));
    extra.push(("process_go_commands".into(), i(gos.load(Ordering::Relaxed))));
    extra.push(("process_longest_wait_ms".into(), i(max_wait.load(Ordering::Relaxed))));
    extra.push(("bound".into(), s("in-process: every one of the 3^7 assignments (each limit kind absent or one of two values) x every schedule in {time never passes, clock expires at limit check k<=K, stop at flag poll k<=K'} on each position, plus every node budget 1..T and every stop point of a depth-2 search; process level: limit assignments with the real clock, up to three go per session, each followed by isready")));
    let mut samples = merged.samples.clone();
    if let Some(l) = sessions.get(7) {
        samples.push(session::session_json(l, "quit"));
    }
    let cov = Coverage {
        states: searches + gos.load(Ordering::Relaxed),
        transitions: merged.get("search_nodes").max(1),
        traces: searches + gos.load(Ordering::Relaxed),
        samples,
        exhaustive: None,
        extra,
        assumptions: vec![
            "in-process runs call Search::new/search exactly as Uci::go does (depth limit also passed as iteration bound); the process layer exercises the real go path".into(),
            "wall-clock arrival is judged only at process level with a 2 s allowance (10 s for tiny depth/node limits)".into(),
        ],
    };
    report::finish(&sink, cov)
}

// ---------------------------------------------------------------------------------------
// C14
// ---------------------------------------------------------------------------------------

pub fn c14_run(args: &Args) -> i32 {
    let thorough = args.tier == "thorough";
    let sink = Sink::new("C14", &args.tier);
    let merged = match workers::fan_out("C14", &args.tier, &sink, &[]) {
        Ok(m) => m,
        Err(e) => {
            eprintln!("MACHINERY: {e}");
            return 2;
        }
    };
    // process level: `go depth N` on the real executable
    let npos = if thorough { P9.len() } else { 8 };
    let maxn = if thorough { 4 } else { 3 };
    let mut sessions = vec![];
    for p in P9.iter().take(npos) {
        for n in 1..=maxn {
            sessions.push((p, n, vec![position_line(p.fen, &spos::hist(p)), "isready".into(), format!("go depth {n}"), "isready".into()]));
        }
    }
    // the largest depth limits through the real go handler, on positions whose trees stay tiny
    for p in spos::DEEP.iter().take(if thorough { 4 } else { 2 }) {
        for n in [254u32, 255] {
            sessions.push((p, n, vec![position_line(p.fen, &spos::hist(p)), "isready".into(), format!("go depth {n}"), "isready".into()]));
        }
    }
    let checked = AtomicU64::new(0);
    let machinery: Mutex<Vec<String>> = Mutex::new(vec![]);
    par_for(&sessions, 16, &|_, (p, n, lines)| match session::run(lines, End::Quit, true) {
        Err(e) => machinery.lock().unwrap().push(e),
        Ok(res) => {
            for g in &res.gos {
                checked.fetch_add(1, Ordering::Relaxed);
                let mut bad = infogrammar::check_log(&g.output, &g.root, Some(i64::from(*n)));
                if g.bestmoves.is_empty() {
                    bad.insert(0, format!("no bestmove after 'go depth {n}'"));
                }
                if let Some(first) = bad.first() {
                    sink.report(format!("session|{}|{n}", p.name), format!("real executable, 'go depth {n}' on {} ({}): {first}", p.fen, p.name), session::session_json(lines, "quit"));
                }
            }
        }
    });
    if let Some(e) = machinery.into_inner().unwrap().first() {
        eprintln!("MACHINERY: {e}");
        return 2;
    }
    // the same under a monotonic clock that runs 2000x fast (LD_PRELOAD shim): a search of a few
    // milliseconds has "been running for many seconds" as far as the engine can tell, so anything
    // the reporting does after some amount of elapsed time happens here; go depth N has no time
    // limit, so the reports must still be depth 1..N, once each, in order
    let mut fast_sessions = vec![];
    for p in P9.iter().take(if thorough { P9.len() } else { 12 }) {
        let n = if thorough { 5 } else { 4 };
        fast_sessions.push((p, n, vec![position_line(p.fen, &spos::hist(p)), "isready".into(), format!("go depth {n}"), "isready".into()]));
    }
    let fast_checked = AtomicU64::new(0);
    let machinery: Mutex<Vec<String>> = Mutex::new(vec![]);
    par_for(&fast_sessions, 8, &|_, (p, n, lines)| {
        super::uciproc::FAST_CLOCK.with(|f| f.set(2000));
        let r = session::run(lines, End::Quit, true);
        super::uciproc::FAST_CLOCK.with(|f| f.set(0));
        match r {
            Err(e) => machinery.lock().unwrap().push(e),
            Ok(res) => {
                for g in &res.gos {
                    fast_checked.fetch_add(1, Ordering::Relaxed);
                    let mut bad = infogrammar::check_log(&g.output, &g.root, Some(i64::from(*n)));
                    if g.bestmoves.is_empty() {
                        bad.insert(0, format!("no bestmove after 'go depth {n}'"));
                    }
                    if let Some(first) = bad.first() {
                        let mut r = session::session_json(lines, "quit");
                        if let J::Obj(v) = &mut r {
                            v.push(("fast_clock".into(), i(2000)));
                        }
                        sink.report(format!("fast-session|{}|{n}", p.name), format!("real executable under a 2000x fast clock, 'go depth {n}' on {} ({}): {first}", p.fen, p.name), r);
                    }
                }
            }
        }
    });
    if let Some(e) = machinery.into_inner().unwrap().first() {
        eprintln!("MACHINERY: {e}");
        return 2;
    }
    // SAMPLED (not exhaustive): both threads printing at the same time. The search thread reports
    // ~100 iterations in a fraction of a second while the command loop answers a flood of isready;
    // every stdout line must still be one well-formed line of one thread. The OS scheduling of the
    // two threads cannot be enumerated without a hook inside the print path, so this only samples it.
    let rounds = if thorough { 100 } else { 24 };
    let mut flood_lines = 0u64;
    for round in 0..rounds {
        match flood_round() {
            Err(e) => {
                eprintln!("MACHINERY: {e}");
                return 2;
            }
            Ok((n, bad)) => {
                flood_lines += n;
                if let Some(b) = bad {
                    sink.report("flood|torn-line".into(), format!("real executable, isready flood during 'go depth 100' (round {round}): {b}"), obj(vec![("kind", s("flood"))]));
                    break;
                }
            }
        }
    }
    let logs = merged.get("logs_checked") + checked.load(Ordering::Relaxed);
    let mut extra: Vec<(String, J)> = merged.counters.iter().map(|(k, v)| (format!("inproc_{}", k.replace(':', "_")), i(*v))).collect();
    extra.push(("process_go_depth_commands".into(), i(checked.load(Ordering::Relaxed))));
    extra.push(("process_go_depth_commands_under_2000x_clock".into(), i(fast_checked.load(Ordering::Relaxed))));
    extra.push(("sampled_output_interleaving_rounds".into(), i(rounds as u64)));
    extra.push(("sampled_output_interleaving_lines_checked".into(), i(flood_lines)));
    let cov = Coverage {
        states: logs,
        transitions: merged.get("info_lines_checked").max(1),
        traces: logs,
        samples: if merged.samples.is_empty() { vec![s("none")] } else { merged.samples.clone() },
        exhaustive: None,
        extra,
        assumptions: vec![
            "mate-distance correctness of 'score mate n' is not demanded (the property does not state it)".into(),
            "an iteration report must carry a score and a non-empty pv; pv moves are replayed on the oracle".into(),
        ],
    };
    report::finish(&sink, cov)
}

/// One round of the isready flood; returns (stdout lines checked, first malformed line).
pub fn flood_round() -> Result<(u64, Option<String>), String> {
    use super::uciproc::Engine;
    use std::time::Duration;
    let mut e = Engine::start(None, &[])?;
    let root = Pos::from_fen("7k/8/5K2/6Q1/8/8/8/8 w - - 0 1").map_err(|x| x.to_string())?;
    // the go and the first 3000 isready lines go into the pipe in ONE write, and the backlog of
    // unanswered isready lines is kept above 1500 until the bestmove arrives (at most 60000
    // lines): the input thread prints answers at full speed for as long as the search thread
    // prints its ~100 iteration reports
    let chunk = |n: usize| "isready\n".repeat(n).trim_end().to_string();
    let mut sent = 3000usize;
    e.send(&format!("position fen 7k/8/5K2/6Q1/8/8/8/8 w - - 0 1\ngo depth 100\n{}", chunk(sent)));
    let began = std::time::Instant::now();
    while e.count_lines("bestmove") == 0 && began.elapsed() < Duration::from_secs(30) {
        if sent < 60_000 && sent.saturating_sub(e.count_lines("readyok")) < 1500 {
            e.send(&chunk(2000));
            sent += 2000;
        } else {
            e.settle(Duration::from_micros(200));
        }
    }
    // all answers owed (generous: nothing here is about speed)
    let t = std::time::Instant::now();
    let mut last = (e.lines().len(), std::time::Instant::now());
    while e.count_lines("readyok") < sent && t.elapsed() < Duration::from_secs(30) {
        e.settle(Duration::from_millis(2));
        // nothing new for six seconds: whatever is missing will not come (judged below)
        let n = e.lines().len();
        if n != last.0 {
            last = (n, std::time::Instant::now());
        } else if last.1.elapsed() > Duration::from_secs(6) {
            break;
        }
    }
    let lines = e.lines();
    e.send("quit");
    let _ = e.wait_exit(Duration::from_secs(5));
    let mut bad = None;
    let mut ready = 0usize;
    for l in &lines {
        let ok = if l == "readyok" {
            ready += 1;
            true
        } else if l.starts_with("info") {
            infogrammar::check_log(&[l.clone()], &root, None).iter().all(|c| c.contains("out of order"))
        } else if let Some(m) = l.strip_prefix("bestmove ") {
            super::searchrun::legal_uci(&root).iter().any(|x| x == m.trim())
        } else {
            false
        };
        if !ok && bad.is_none() {
            bad = Some(format!("malformed stdout line '{l}'"));
        }
    }
    if bad.is_none() && ready != sent {
        bad = Some(format!("{sent} isready sent but {ready} readyok lines"));
    }
    if bad.is_none() && e.count_lines("bestmove") != 1 {
        bad = Some(format!("{} bestmove lines", e.count_lines("bestmove")));
    }
    Ok((lines.len() as u64, bad))
}

pub fn replay_session(prop: &str, r: &J) -> i32 {
    let lines = r.get("lines").map(|x| x.str_list()).unwrap_or_default();
    let end = match r.get("end").and_then(|x| x.str()) {
        Some("eof") => End::CloseStdin,
        _ => End::Quit,
    };
    let check_go = prop != "C15";
    if let Some(f) = r.get("fast_clock").and_then(|x| x.int()) {
        super::uciproc::FAST_CLOCK.with(|c| c.set(f as u64));
    }
    let res = match session::run(&lines, end, check_go) {
        Ok(r) => r,
        Err(e) => {
            eprintln!("MACHINERY: {e}");
            return 2;
        }
    };
    let mut bad = res.complaints.clone();
    if prop == "C09" || prop == "C10" || prop == "C08" {
        bad.extend(session::judge_gos(&res));
    }
    if prop == "C14" {
        for g in &res.gos {
            let l = Limits::from_go_line(&g.line);
            bad.extend(infogrammar::check_log(&g.output, &g.root, l.depth.map(|d| d as i64)));
        }
    }
    for g in &res.gos {
        println!("  {} -> {:?} in {} ms", g.line, g.bestmoves, g.waited_ms);
    }
    if bad.is_empty() {
        println!("no violation");
        0
    } else {
        println!("violation reproduced: {}", bad[0]);
        1
    }
}

// ---------------------------------------------------------------------------------------
// C15
// ---------------------------------------------------------------------------------------

const VALID_FEN: &str = "r3k2r/p1ppqpb1/bn2pnp1/3PN3/1p2P3/2N2Q1p/PPPBBPPP/R3K2R w KQkq - 0 1";

/// token vocabulary of the parser enumeration: the UCI words plus junk
const VOCAB: &[&str] = &[
    "uci", "isready", "ucinewgame", "setoption", "name", "value", "position", "startpos", "fen", "moves", "go", "searchmoves", "ponder", "wtime", "btime", "winc", "binc", "movestogo",
    "depth", "nodes", "mate", "movetime", "infinite", "stop", "quit", "5", "0", "-1", "abc", "99999999999999999999999", "e2e4", "e7e8q", "Hash", "300", "70000", "5000000000", "18446744073709551616",
];

fn c15_lines() -> Vec<String> {
    let mut v: Vec<String> = [
        "uci",
        "ucinewgame",
        "stop",
        "position startpos",
        "position startpos moves e2e4 e7e5",
        "position startpos moves e2e5",
        "position startpos moves",
        "position startpos e2e4",
        "position",
        "position moves e2e4",
        "position fen 8/8/8/8 w",
        "go wtime",
        "go btime",
        "go winc",
        "go binc",
        "go depth",
        "go nodes",
        "go movetime",
        "go wtime 100 btime",
        "go depth x",
        "go depth -1",
        "go depth 99999999999999999999999",
        "go nodes 0",
        "go movetime abc",
        "go depth 1",
        "go movetime 20",
        "go infinite",
        "go ponder",
        "go searchmoves e2e4",
        "go mate 3",
        "go foo",
        "setoption",
        "setoption name",
        "setoption name Hash value 1",
        "setoption name Hash value",
        "setoption name value",
        "setoption value x name y",
        "setoption name",
        "setoption Hash 1",
        "xyz",
        "",
        "   ",
        "debug on",
        "ponderhit",
    ]
    .iter()
    .map(|x| x.to_string())
    .collect();
    // out-of-range numbers and over-long argument lists
    v.push("go depth 0".into());
    v.push("go depth 255".into());
    v.push("go depth 256".into());
    v.push("go depth 300".into());
    v.push("go depth 70000".into());
    v.push("go nodes 5000000000".into());
    v.push("go movetime 5000000000".into());
    v.push("go wtime 18446744073709551616 btime 18446744073709551616".into());
    v.push("go nodes 18446744073709551616".into());
    v.push("go movetime -5".into());
    v.push("go wtime 340282366920938463463374607431768211456 btime 1".into());
    v.push(format!("go{}", " depth 1".repeat(400)));
    v.push(format!("position startpos moves{}", " e2e4".repeat(600)));
    v.push(format!("setoption name{} value 1", " Hash".repeat(500)));
    v.push(format!("position fen {VALID_FEN}"));
    v.push(format!("position fen {VALID_FEN} moves e1g1"));
    v.push(format!("position fen {VALID_FEN} moves e1g1 e8g8 a1a1"));
    v.push(format!("position fen {VALID_FEN} extra tokens here"));
    v.dedup();
    v
}

/// Watchdog for the parser enumeration: a parse (or an executed line) that does not return
/// within 3 s means the main thread of the engine would be wedged on that line. The worker
/// cannot interrupt it; it records the line in a side file and exits (the parent turns that
/// into a C15 violation).
static C15_CURRENT: Mutex<Option<(String, std::time::Instant)>> = Mutex::new(None);

fn c15_watchdog() {
    std::thread::spawn(|| loop {
        std::thread::sleep(std::time::Duration::from_millis(100));
        let cur = C15_CURRENT.lock().unwrap_or_else(|e| e.into_inner()).clone();
        if let Some((line, since)) = cur {
            if since.elapsed() > std::time::Duration::from_secs(3) {
                let dir = report::verif_root().join(".work").join("overrun");
                let _ = std::fs::create_dir_all(&dir);
                let doc = obj(vec![("kind", s("parse")), ("line", s(line)), ("wedged", J::Bool(true))]);
                let _ = std::fs::write(dir.join(format!("{}.json", std::process::id())), doc.compact());
                std::process::exit(3);
            }
        }
    });
}

fn c15_guard(line: &str) {
    *C15_CURRENT.lock().unwrap_or_else(|e| e.into_inner()) = Some((line.to_string(), std::time::Instant::now()));
}

pub fn c15_worker(args: &Args, w: &Worker) -> i32 {
    // E1: ALL token strings up to the length bound through the real parser; every line that
    // does not start a search is also executed through the real command loop.
    super::searchrun::quiet_panics();
    c15_watchdog();
    let thorough = args.tier == "thorough";
    let maxlen = if thorough { 5 } else { 4 };
    let n = VOCAB.len();
    let mut total: u64 = 0;
    for len in 0..=maxlen {
        let count = (n as u64).pow(len as u32);
        // thorough length 5 runs on a reduced alphabet (the first 20 words + junk)
        let (alpha, count): (Vec<&str>, u64) = if len == 5 {
            let a: Vec<&str> = VOCAB.iter().copied().filter(|t| !matches!(*t, "searchmoves" | "ponder" | "movestogo" | "mate" | "winc" | "binc" | "btime" | "0" | "-1" | "e7e8q" | "Hash" | "uci" | "ucinewgame" | "70000" | "5000000000" | "18446744073709551616")).collect();
            let c = (a.len() as u64).pow(5);
            (a, c)
        } else {
            (VOCAB.to_vec(), count)
        };
        let base = alpha.len() as u64;
        for code in 0..count {
            total += 1;
            if total % w.nshards as u64 != w.shard as u64 {
                continue;
            }
            let mut toks: Vec<&str> = Vec::with_capacity(len);
            let mut x = code;
            for _ in 0..len {
                toks.push(alpha[(x % base) as usize]);
                x /= base;
            }
            w.count("token_strings_parsed", 1);
            c15_guard(&toks.join(" "));
            let r = std::panic::catch_unwind(|| crate::uci::rce_verif_parse(&toks));
            match r {
                Err(_) => {
                    w.count("parser_panics", 1);
                    let line = toks.join(" ");
                    w.violation(
                        &format!("parse|{}", canonical_line(&toks)),
                        &format!("the command parser panics on the line '{line}' ({}) - on the main thread this kills the engine", super::searchrun::last_panic()),
                        &obj(vec![("kind", s("parse")), ("line", s(line))]),
                    );
                }
                Ok(Ok(_)) => w.count("accepted", 1),
                Ok(Err(_)) => w.count("rejected", 1),
            }
            // execute through the real loop unless it would start a search, load an
            // arbitrary-token FEN, or end the loop early
            let first = toks.first().copied().unwrap_or("");
            let executes = len <= 4 && first != "go" && first != "quit" && !(first == "position" && toks.get(1) == Some(&"fen"));
            if executes && code % 7 == 0 {
                let script = format!("{}\nisready\nquit\n", toks.join(" "));
                w.count("lines_executed_in_loop", 1);
                if std::panic::catch_unwind(|| crate::uci::rce_verif_run_script(&script)).is_err() {
                    let line = toks.join(" ");
                    w.violation(
                        &format!("exec|{}", canonical_line(&toks)),
                        &format!("executing the line '{line}' through the command loop panics ({})", super::searchrun::last_panic()),
                        &obj(vec![("kind", s("exec")), ("line", s(line))]),
                    );
                }
            }
        }
    }
    // E1c: `position fen` with a TRUNCATED argument list: every sequence of fewer than six tokens
    // after `fen` over {the six fields of a valid FEN, moves, two move strings, junk}. With six or
    // more tokens the first six are the FEN argument, which the property assumes to be valid;
    // with fewer there is no complete FEN argument and the line must simply be rejected.
    // Parsed and executed through the real command loop.
    {
        let f: Vec<&str> = VALID_FEN.split(' ').collect();
        let alpha: Vec<&str> = vec![f[0], f[1], f[2], f[3], f[4], f[5], "moves", "e2e4", "e1g1", "junk"];
        for len in 0..=5usize {
            let count = (alpha.len() as u64).pow(len as u32);
            for code in 0..count {
                total += 1;
                if total % w.nshards as u64 != w.shard as u64 {
                    continue;
                }
                let mut toks: Vec<&str> = vec!["position", "fen"];
                let mut x = code;
                for _ in 0..len {
                    toks.push(alpha[(x % alpha.len() as u64) as usize]);
                    x /= alpha.len() as u64;
                }
                let line = toks.join(" ");
                w.count("truncated_position_fen_lines_executed", 1);
                c15_guard(&line);
                let script = format!("{line}\nisready\nquit\n");
                let parsed = std::panic::catch_unwind(|| crate::uci::rce_verif_parse(&toks).is_ok());
                let ran = std::panic::catch_unwind(|| crate::uci::rce_verif_run_script(&script));
                if parsed.is_err() || ran.is_err() {
                    w.count("parser_panics", 1);
                    w.violation(
                        &format!("fen-truncated|{}", if parsed.is_err() { "parse" } else { "exec" }),
                        &format!("the line '{line}' (no complete FEN argument) panics on the main thread ({}) instead of being rejected", super::searchrun::last_panic()),
                        &obj(vec![("kind", s("exec")), ("line", s(line.clone()))]),
                    );
                }
            }
        }
    }
    // E1d: junk that is not ASCII: a two-, three- and four-byte character at EVERY byte offset
    // 0..=80 of an otherwise ASCII junk line (anything that cuts, pads or echoes a line by bytes)
    for ch in ["\u{e9}", "\u{20ac}", "\u{1f600}"] {
        for lead in ["", "go depth 3 searchmoves ", "position startpos moves ", "setoption name "] {
            for pad in 0..=80usize {
                total += 1;
                if total % w.nshards as u64 != w.shard as u64 {
                    continue;
                }
                let line = format!("{lead}{}{ch}2{ch}4 tail", "x".repeat(pad));
                w.count("non_ascii_lines_executed", 1);
                c15_guard(&line);
                let toks: Vec<&str> = line.split_whitespace().collect();
                let script = format!("{line}\nisready\nquit\n");
                let parsed = std::panic::catch_unwind(|| crate::uci::rce_verif_parse(&toks).is_ok());
                let ran = std::panic::catch_unwind(|| crate::uci::rce_verif_run_script(&script));
                if parsed.is_err() || ran.is_err() {
                    w.count("parser_panics", 1);
                    w.violation(
                        &format!("non-ascii|{lead}|{}", if parsed.is_err() { "parse" } else { "exec" }),
                        &format!("the line '{line}' (non-ASCII junk, {} bytes) panics on the main thread ({})", line.len(), super::searchrun::last_panic()),
                        &obj(vec![("kind", s("exec")), ("line", s(line.clone()))]),
                    );
                }
            }
        }
    }
    // E1b: every numeric argument of go and of setoption over ALL values 0..=300 and every
    // power of two up to 2^128 with its two neighbours (the boundaries of u8/u16/u32/u64/u128 and
    // of any narrower type a parser might use), negative values included: parser only
    let mut values: Vec<String> = (0..=300u32).map(|v| v.to_string()).collect();
    for e in 8..=128u32 {
        // decimal strings of 2^e - 1, 2^e, 2^e + 1 without 256-bit arithmetic
        for delta in [-1i8, 0, 1] {
            values.push(pow2_decimal(e, delta));
        }
    }
    for v in ["-1", "-128", "-129", "-32769", "-2147483649", "-9223372036854775809"] {
        values.push(v.to_string());
    }
    values.sort();
    values.dedup();
    let shapes: Vec<Vec<&str>> = vec![
        vec!["go", "depth"], vec!["go", "nodes"], vec!["go", "mate"], vec!["go", "movetime"], vec!["go", "movestogo"],
        vec!["go", "wtime"], vec!["go", "btime"], vec!["go", "winc"], vec!["go", "binc"],
        vec!["go", "wtime", "1000", "btime", "1000", "winc"], vec!["go", "wtime", "1000", "btime", "1000", "movestogo"],
        vec!["setoption", "name", "Hash", "value"],
    ];
    for shape in &shapes {
        for v in &values {
            total += 1;
            if total % w.nshards as u64 != w.shard as u64 {
                continue;
            }
            let mut toks: Vec<&str> = shape.clone();
            toks.push(v);
            w.count("numeric_argument_lines_parsed", 1);
            c15_guard(&toks.join(" "));
            if std::panic::catch_unwind(|| crate::uci::rce_verif_parse(&toks)).is_err() {
                w.count("parser_panics", 1);
                let line = toks.join(" ");
                w.violation(
                    &format!("parse-num|{}", shape.join(" ")),
                    &format!("the command parser panics on the line '{line}' ({}) - on the main thread this kills the engine", super::searchrun::last_panic()),
                    &obj(vec![("kind", s("parse")), ("line", s(line))]),
                );
            }
        }
    }
    w.done()
}

/// decimal string of 2^e + delta (delta in -1..=1), by schoolbook doubling
fn pow2_decimal(e: u32, delta: i8) -> String {
    let mut digits: Vec<u8> = vec![1]; // little endian
    for _ in 0..e {
        let mut carry = 0;
        for d in digits.iter_mut() {
            let x = *d * 2 + carry;
            *d = x % 10;
            carry = x / 10;
        }
        if carry > 0 {
            digits.push(carry);
        }
    }
    if delta > 0 {
        digits[0] += 1; // 2^e is even and does not end in 9
    } else if delta < 0 {
        // 2^e never ends in 0, so no borrow
        digits[0] -= 1;
    }
    digits.iter().rev().map(|d| (b'0' + d) as char).collect()
}

/// Groups equivalent failing lines: the command word plus the shape of what follows
/// (one finding per call site rather than one per junk token).
fn canonical_line(toks: &[&str]) -> String {
    let first = toks.first().copied().unwrap_or("");
    match first {
        "go" => {
            // the keyword whose value is missing is what matters
            let last = toks.last().copied().unwrap_or("");
            format!("go ... {last}<end>")
        }
        "setoption" => {
            let has_name = toks.iter().position(|t| *t == "name");
            let has_value = toks.iter().position(|t| *t == "value");
            format!("setoption name@{has_name:?} value@{has_value:?} len{}", toks.len())
        }
        _ => toks.join(" "),
    }
}

pub fn c15_run(args: &Args) -> i32 {
    let thorough = args.tier == "thorough";
    let sink = Sink::new("C15", &args.tier);
    let merged = match workers::fan_out("C15", &args.tier, &sink, &[]) {
        Ok(m) => m,
        Err(e) => {
            eprintln!("MACHINERY: {e}");
            return 2;
        }
    };
    for h in &merged.hung {
        let doc = J::parse(h).unwrap_or(J::Null);
        let line = doc.get("line").and_then(|x| x.str()).unwrap_or("?").to_string();
        sink.report(
            "parse|wedged".into(),
            format!("the command parser / loop does not return within 3 s on '{line}': the main thread of the engine is wedged"),
            doc,
        );
    }
    // E2: all sessions of <= L lines over the representative lines, each line followed by
    // isready; ended by quit and, separately, by closing stdin
    let lines = c15_lines();
    let maxlen = if thorough { 3 } else { 2 };
    let mut sessions: Vec<(Vec<String>, bool)> = vec![(vec![], false), (vec![], true)];
    let mut frontier: Vec<Vec<String>> = vec![vec![]];
    for len in 1..=maxlen {
        let mut next = vec![];
        for pre in &frontier {
            for (li, l) in lines.iter().enumerate() {
                // the thorough tier's third line is taken from every 3rd representative
                if len == 3 && li % 3 != 0 {
                    continue;
                }
                let mut sss = pre.clone();
                sss.push(l.clone());
                next.push(sss);
            }
        }
        for sss in &next {
            sessions.push((sss.clone(), false));
            sessions.push((sss.clone(), true));
        }
        frontier = next;
    }
    // searches whose thread dies (no legal move at the root; depth 0) must not take the command
    // loop with them - neither at once nor when the next go comes
    let dead: Vec<Vec<String>> = vec![
        vec!["position fen 7k/5Q2/6K1/8/8/8/8/8 b - - 0 1".into(), "go depth 2".into(), "go depth 2".into(), "go movetime 10".into()],
        vec!["position fen 7k/5K2/6Q1/8/8/8/8/8 b - - 0 1".into(), "go infinite".into(), "stop".into(), "go depth 1".into()],
        vec!["go depth 0".into(), "go depth 1".into(), "position startpos moves e2e4".into(), "go depth 1".into()],
    ];
    for d in dead {
        sessions.push((d.clone(), false));
        sessions.push((d, true));
    }
    let ran = AtomicU64::new(0);
    let search_panics = AtomicU64::new(0);
    let machinery: Mutex<Vec<String>> = Mutex::new(vec![]);
    par_for(&sessions, 24, &|_, (cmds, eof)| {
        let mut script = vec![];
        for c in cmds {
            script.push(c.clone());
            script.push("isready".to_string());
        }
        match session::run(&script, if *eof { End::CloseStdin } else { End::Quit }, false) {
            Err(e) => machinery.lock().unwrap().push(e),
            Ok(res) => {
                ran.fetch_add(1, Ordering::Relaxed);
                search_panics.fetch_add(res.stderr_panics, Ordering::Relaxed);
                if let Some(first) = res.complaints.first() {
                    // signature: the last command line and how the session ended (one finding per input)
                    let culprit = cmds.last().cloned().unwrap_or_default();
                    let kind = if first.contains("did not exit") { if *eof { "eof" } else { "quit" } } else { "line" };
                    let sig = if kind == "line" { format!("session|{kind}|{culprit}") } else { format!("session|{kind}") };
                    sink.report(sig, format!("real executable: {first}"), session::session_json(&script, if *eof { "eof" } else { "quit" }));
                }
            }
        }
    });
    if let Some(e) = machinery.into_inner().unwrap().first() {
        eprintln!("MACHINERY: {e}");
        return 2;
    }
    let parsed = merged.get("token_strings_parsed");
    let mut extra: Vec<(String, J)> = merged.counters.iter().map(|(k, v)| (format!("parser_{}", k.replace(':', "_")), i(*v))).collect();
    extra.push(("vocabulary".into(), s(VOCAB.join(" "))));
    extra.push(("process_sessions".into(), i(ran.load(Ordering::Relaxed))));
    extra.push(("process_representative_lines".into(), i(lines.len() as u64)));
    extra.push(("process_session_max_lines".into(), i(maxlen as u64)));
    extra.push(("process_search_thread_panics_seen_not_judged".into(), i(search_panics.load(Ordering::Relaxed))));
    let cov = Coverage {
        states: parsed + ran.load(Ordering::Relaxed),
        transitions: parsed + merged.get("lines_executed_in_loop") + sessions.iter().map(|(c, _)| 2 * c.len() as u64 + 1).sum::<u64>(),
        traces: parsed + ran.load(Ordering::Relaxed),
        samples: vec![
            s("go wtime"),
            s("setoption name value"),
            session::session_json(&["go infinite".into(), "isready".into(), "position startpos moves e2e5".into(), "isready".into()], "eof"),
        ],
        exhaustive: None,
        extra,
        assumptions: vec![
            "FEN contents are not fuzzed (the property assumes valid FEN); only valid or truncated FEN argument lists are sent".into(),
            "a panic of the detached search thread (e.g. after 'go depth 0') does not end the process and is not judged here; liveness, readyok and exit are".into(),
        ],
    };
    report::finish(&sink, cov)
}

pub fn replay_c15(doc: &J) -> i32 {
    let Some(r) = doc.get("replay") else { return 2 };
    match r.get("kind").and_then(|x| x.str()) {
        Some("session") => replay_session("C15", r),
        Some(k) => {
            let line = r.get("line").and_then(|x| x.str()).unwrap_or("").to_string();
            super::searchrun::quiet_panics();
            if r.get("wedged").is_some() {
                // run it on a thread: a parse that never returns cannot be interrupted
                let (tx, rx) = std::sync::mpsc::channel();
                let l2 = line.clone();
                std::thread::spawn(move || {
                    let toks: Vec<&str> = l2.split_whitespace().collect();
                    let _ = std::panic::catch_unwind(|| crate::uci::rce_verif_parse(&toks));
                    let _ = tx.send(());
                });
                return match rx.recv_timeout(std::time::Duration::from_secs(3)) {
                    Ok(()) => {
                        println!("'{line}' parses in time");
                        0
                    }
                    Err(_) => {
                        println!("violation reproduced: the parser does not return on '{line}'");
                        std::process::exit(1);
                    }
                };
            }
            let toks: Vec<&str> = line.split_whitespace().collect();
            let mut v = vec![];
            for _ in 0..2 {
                let bad = if k == "parse" {
                    std::panic::catch_unwind(|| crate::uci::rce_verif_parse(&toks)).is_err()
                } else {
                    let script = format!("{line}\nisready\nquit\n");
                    std::panic::catch_unwind(|| crate::uci::rce_verif_run_script(&script)).is_err()
                };
                v.push(bad);
            }
            if v[0] != v[1] {
                return 2;
            }
            if v[0] {
                println!("violation reproduced: '{line}' panics ({})", super::searchrun::last_panic());
                1
            } else {
                println!("no violation");
                0
            }
        }
        None => 2,
    }
}
