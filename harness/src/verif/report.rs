//! Shared plumbing: a tiny JSON value (writer + reader), violations, replay artefacts,
//! evidence files and the known-findings list.

use std::collections::BTreeMap;
use std::fmt::Write as _;
use std::path::{Path, PathBuf};
use std::sync::Mutex;
use std::time::Instant;

#[derive(Clone, Debug, PartialEq)]
pub enum J {
    Null,
    Bool(bool),
    Int(i128),
    Num(f64),
    Str(String),
    Arr(Vec<J>),
    Obj(Vec<(String, J)>),
}

pub fn s(x: impl Into<String>) -> J {
    J::Str(x.into())
}
pub fn i(x: impl TryInto<i128>) -> J {
    J::Int(x.try_into().ok().unwrap_or(0))
}
pub fn arr_s(v: &[String]) -> J {
    J::Arr(v.iter().map(|x| J::Str(x.clone())).collect())
}
pub fn obj(v: Vec<(&str, J)>) -> J {
    J::Obj(v.into_iter().map(|(k, v)| (k.to_string(), v)).collect())
}

impl J {
    pub fn dump(&self) -> String {
        let mut o = String::new();
        self.write(&mut o, 0);
        o
    }
    fn write(&self, o: &mut String, ind: usize) {
        match self {
            J::Null => o.push_str("null"),
            J::Bool(b) => {
                let _ = write!(o, "{b}");
            }
            J::Int(n) => {
                let _ = write!(o, "{n}");
            }
            J::Num(f) => {
                if f.is_finite() {
                    let _ = write!(o, "{f:.3}");
                } else {
                    o.push('0');
                }
            }
            J::Str(t) => {
                o.push('"');
                for c in t.chars() {
                    match c {
                        '"' => o.push_str("\\\""),
                        '\\' => o.push_str("\\\\"),
                        '\n' => o.push_str("\\n"),
                        '\r' => o.push_str("\\r"),
                        '\t' => o.push_str("\\t"),
                        c if (c as u32) < 0x20 => {
                            let _ = write!(o, "\\u{:04x}", c as u32);
                        }
                        c => o.push(c),
                    }
                }
                o.push('"');
            }
            J::Arr(v) => {
                if v.is_empty() {
                    o.push_str("[]");
                    return;
                }
                let simple = v.iter().all(|x| !matches!(x, J::Arr(_) | J::Obj(_)));
                o.push('[');
                for (k, x) in v.iter().enumerate() {
                    if k > 0 {
                        o.push(',');
                    }
                    if !simple {
                        o.push('\n');
                        o.push_str(&" ".repeat(ind + 1));
                    } else if k > 0 {
                        o.push(' ');
                    }
                    x.write(o, ind + 1);
                }
                if !simple {
                    o.push('\n');
                    o.push_str(&" ".repeat(ind));
                }
                o.push(']');
            }
            J::Obj(v) => {
                if v.is_empty() {
                    o.push_str("{}");
                    return;
                }
                o.push('{');
                for (k, (name, x)) in v.iter().enumerate() {
                    if k > 0 {
                        o.push(',');
                    }
                    o.push('\n');
                    o.push_str(&" ".repeat(ind + 1));
                    J::Str(name.clone()).write(o, 0);
                    o.push_str(": ");
                    x.write(o, ind + 1);
                }
                o.push('\n');
                o.push_str(&" ".repeat(ind));
                o.push('}');
            }
        }
    }

    /// single-line form (for line-oriented worker output)
    pub fn compact(&self) -> String {
        match self {
            J::Arr(v) => format!("[{}]", v.iter().map(J::compact).collect::<Vec<_>>().join(",")),
            J::Obj(v) => format!(
                "{{{}}}",
                v.iter()
                    .map(|(k, x)| format!("{}:{}", J::Str(k.clone()).dump(), x.compact()))
                    .collect::<Vec<_>>()
                    .join(",")
            ),
            other => other.dump(),
        }
    }

    pub fn get(&self, k: &str) -> Option<&J> {
        match self {
            J::Obj(v) => v.iter().find(|(n, _)| n == k).map(|(_, x)| x),
            _ => None,
        }
    }
    pub fn str(&self) -> Option<&str> {
        match self {
            J::Str(t) => Some(t),
            _ => None,
        }
    }
    pub fn int(&self) -> Option<i128> {
        match self {
            J::Int(n) => Some(*n),
            J::Num(f) => Some(*f as i128),
            _ => None,
        }
    }
    pub fn arr(&self) -> Option<&Vec<J>> {
        match self {
            J::Arr(v) => Some(v),
            _ => None,
        }
    }
    pub fn str_list(&self) -> Vec<String> {
        self.arr()
            .map(|v| v.iter().filter_map(|x| x.str().map(str::to_string)).collect())
            .unwrap_or_default()
    }

    pub fn parse(text: &str) -> Result<J, String> {
        let b: Vec<char> = text.chars().collect();
        let mut p = 0;
        let v = parse_val(&b, &mut p)?;
        skip_ws(&b, &mut p);
        if p != b.len() {
            return Err("trailing characters".into());
        }
        Ok(v)
    }
}

fn skip_ws(b: &[char], p: &mut usize) {
    while *p < b.len() && b[*p].is_whitespace() {
        *p += 1;
    }
}

fn parse_val(b: &[char], p: &mut usize) -> Result<J, String> {
    skip_ws(b, p);
    if *p >= b.len() {
        return Err("unexpected end".into());
    }
    match b[*p] {
        '{' => {
            *p += 1;
            let mut v = Vec::new();
            loop {
                skip_ws(b, p);
                if *p < b.len() && b[*p] == '}' {
                    *p += 1;
                    break;
                }
                let k = match parse_val(b, p)? {
                    J::Str(k) => k,
                    _ => return Err("object key must be a string".into()),
                };
                skip_ws(b, p);
                if *p >= b.len() || b[*p] != ':' {
                    return Err("expected ':'".into());
                }
                *p += 1;
                let x = parse_val(b, p)?;
                v.push((k, x));
                skip_ws(b, p);
                if *p < b.len() && b[*p] == ',' {
                    *p += 1;
                }
            }
            Ok(J::Obj(v))
        }
        '[' => {
            *p += 1;
            let mut v = Vec::new();
            loop {
                skip_ws(b, p);
                if *p < b.len() && b[*p] == ']' {
                    *p += 1;
                    break;
                }
                v.push(parse_val(b, p)?);
                skip_ws(b, p);
                if *p < b.len() && b[*p] == ',' {
                    *p += 1;
                }
            }
            Ok(J::Arr(v))
        }
        '"' => {
            *p += 1;
            let mut o = String::new();
            while *p < b.len() && b[*p] != '"' {
                if b[*p] == '\\' && *p + 1 < b.len() {
                    *p += 1;
                    match b[*p] {
                        'n' => o.push('\n'),
                        't' => o.push('\t'),
                        'r' => o.push('\r'),
                        'u' => {
                            let h: String = b[*p + 1..(*p + 5).min(b.len())].iter().collect();
                            if let Some(c) = u32::from_str_radix(&h, 16).ok().and_then(char::from_u32) {
                                o.push(c);
                            }
                            *p += 4;
                        }
                        c => o.push(c),
                    }
                } else {
                    o.push(b[*p]);
                }
                *p += 1;
            }
            *p += 1;
            Ok(J::Str(o))
        }
        't' => {
            *p += 4;
            Ok(J::Bool(true))
        }
        'f' => {
            *p += 5;
            Ok(J::Bool(false))
        }
        'n' => {
            *p += 4;
            Ok(J::Null)
        }
        _ => {
            let st = *p;
            while *p < b.len() && (b[*p].is_ascii_digit() || "+-.eE".contains(b[*p])) {
                *p += 1;
            }
            let t: String = b[st..*p].iter().collect();
            if let Ok(n) = t.parse::<i128>() {
                Ok(J::Int(n))
            } else {
                t.parse::<f64>().map(J::Num).map_err(|_| format!("bad number {t}"))
            }
        }
    }
}

pub fn verif_root() -> PathBuf {
    if let Some(p) = std::env::var_os("RCE_VERIF_ROOT") {
        return PathBuf::from(p);
    }
    PathBuf::from("/verif")
}

#[derive(Clone, Debug)]
pub struct Violation {
    pub property: String,
    /// identifies the specific failing input / call site / history (known-findings matching)
    pub signature: String,
    pub what: String,
    /// everything needed to replay this one case without the explorer
    pub replay: J,
}

pub struct Sink {
    pub property: String,
    pub tier: String,
    started: Instant,
    violations: Mutex<Vec<Violation>>,
    total: std::sync::atomic::AtomicU64,
    cap: usize,
}

impl Sink {
    pub fn new(property: &str, tier: &str) -> Sink {
        Sink {
            property: property.to_string(),
            tier: tier.to_string(),
            started: Instant::now(),
            violations: Mutex::new(Vec::new()),
            total: std::sync::atomic::AtomicU64::new(0),
            cap: 200,
        }
    }
    pub fn report(&self, signature: String, what: String, replay: J) {
        self.total.fetch_add(1, std::sync::atomic::Ordering::Relaxed);
        let mut v = self.violations.lock().unwrap();
        if v.len() < self.cap && !v.iter().any(|x| x.signature == signature) {
            v.push(Violation {
                property: self.property.clone(),
                signature,
                what,
                replay,
            });
        }
    }
    pub fn count(&self) -> u64 {
        self.total.load(std::sync::atomic::Ordering::Relaxed)
    }
    pub fn elapsed(&self) -> f64 {
        self.started.elapsed().as_secs_f64()
    }
    pub fn take(&self) -> Vec<Violation> {
        std::mem::take(&mut *self.violations.lock().unwrap())
    }
}

pub struct Known {
    pub known: Vec<(String, String, String)>, // property, signature, what
}

/// `known_findings.txt`: lines `known: property=<id> sig=<signature> :: <what fails>` and
/// `fixed: property=<id> <commit> <what failed>` (fixed entries suppress nothing).
pub fn load_known() -> Known {
    let mut k = Known { known: vec![] };
    if let Ok(t) = std::fs::read_to_string(verif_root().join("known_findings.txt")) {
        for line in t.lines() {
            let line = line.trim();
            if let Some(rest) = line.strip_prefix("known:") {
                let rest = rest.trim();
                let (head, what) = rest.split_once("::").unwrap_or((rest, ""));
                let mut prop = String::new();
                let mut sig = String::new();
                if let Some(p) = head.trim().strip_prefix("property=") {
                    let (a, b) = p.split_once(' ').unwrap_or((p, ""));
                    prop = a.to_string();
                    if let Some(x) = b.trim().strip_prefix("sig=") {
                        sig = x.trim().to_string();
                    }
                }
                if !prop.is_empty() && !sig.is_empty() {
                    k.known.push((prop, sig, what.trim().to_string()));
                }
            }
        }
    }
    k
}

pub struct Coverage {
    pub states: u64,
    pub transitions: u64,
    pub traces: u64,
    pub samples: Vec<J>,
    pub exhaustive: Option<bool>,
    pub extra: Vec<(String, J)>,
    pub assumptions: Vec<String>,
}

/// Writes evidence, replay artefacts, prints VIOLATION / KNOWN-FINDING lines; returns exit code.
pub fn finish(sink: &Sink, cov: Coverage) -> i32 {
    let root = verif_root();
    let vs = sink.take();
    let known = load_known();
    let rdir = root.join("replays").join(&sink.property);
    let _ = std::fs::remove_dir_all(&rdir);
    let mut new_violations = 0u64;
    let mut known_hits: BTreeMap<String, String> = BTreeMap::new();
    for (n, v) in vs.iter().enumerate() {
        if let Some((_, sig, what)) = known
            .known
            .iter()
            .find(|(p, sig, _)| *p == v.property && *sig == v.signature)
        {
            known_hits.insert(sig.clone(), what.clone());
            continue;
        }
        new_violations += 1;
        let _ = std::fs::create_dir_all(&rdir);
        let path = rdir.join(format!("{n}.json"));
        let doc = obj(vec![
            ("property", s(v.property.clone())),
            ("signature", s(v.signature.clone())),
            ("what", s(v.what.clone())),
            ("replay", v.replay.clone()),
        ]);
        let _ = std::fs::write(&path, doc.dump());
        println!("VIOLATION property={} replay={}", v.property, path.display());
        println!("  what: {}", v.what);
    }
    for (sig, what) in &known_hits {
        println!("KNOWN-FINDING: property={} {} [{}]", sink.property, what, sig);
    }
    let seed: i128 = std::env::var("VERIF_SEED").ok().and_then(|x| x.parse().ok()).unwrap_or(0);
    let mut covv: Vec<(String, J)> = vec![
        ("states".into(), i(cov.states)),
        ("transitions".into(), i(cov.transitions)),
        ("traces_validated_against_impl".into(), i(cov.traces)),
        ("samples".into(), J::Arr(cov.samples)),
    ];
    if let Some(e) = cov.exhaustive {
        covv.push(("exhaustive".into(), J::Bool(e)));
    }
    covv.extend(cov.extra);
    let doc = J::Obj(vec![
        ("property_id".into(), s(sink.property.clone())),
        ("tier".into(), s(sink.tier.clone())),
        ("seed".into(), J::Int(seed)),
        ("level".into(), s("model_checking")),
        ("coverage".into(), J::Obj(covv)),
        ("assumptions".into(), arr_s(&cov.assumptions)),
        ("wall_s".into(), J::Num(sink.elapsed())),
        ("violations".into(), i(sink.count())),
        ("violations_distinct_reported".into(), i(new_violations)),
        ("known_findings_matched".into(), i(known_hits.len() as u64)),
    ]);
    let edir = root.join("evidence");
    let _ = std::fs::create_dir_all(&edir);
    if let Err(e) = std::fs::write(edir.join(format!("{}.json", sink.property)), doc.dump()) {
        eprintln!("cannot write evidence: {e}");
        return 2;
    }
    println!(
        "{} {}: states={} transitions={} traces={} violations={} (distinct new {}) wall={:.1}s",
        sink.property,
        sink.tier,
        cov.states,
        cov.transitions,
        cov.traces,
        sink.count(),
        new_violations,
        sink.elapsed()
    );
    if new_violations > 0 {
        1
    } else {
        0
    }
}

pub fn read_json(path: &Path) -> Result<J, String> {
    let t = std::fs::read_to_string(path).map_err(|e| format!("{}: {e}", path.display()))?;
    J::parse(&t)
}
