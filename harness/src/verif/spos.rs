//! Position sets for the search-level checks.

use super::seeds::{self, Seed};

pub struct SPos {
    pub name: &'static str,
    pub fen: &'static str,
    pub history: &'static str,
}

/// Positions with at least one legal move, chosen for the search checks: quiet, tactical,
/// in check, one legal move, promotion races, near stalemate, high clocks, with game history.
pub const P9: &[SPos] = &[
    SPos { name: "start", fen: seeds::START, history: "" },
    SPos { name: "kiwipete", fen: seeds::KIWIPETE, history: "" },
    SPos { name: "one-legal-move", fen: "7k/8/8/8/8/8/6q1/7K w - - 0 1", history: "" },
    SPos { name: "in-check", fen: "4k3/8/8/8/1b6/8/8/R3K2R w KQ - 0 1", history: "" },
    SPos { name: "mate-in-1", fen: "7k/8/5K2/6Q1/8/8/8/8 w - - 0 1", history: "" },
    SPos { name: "mate-in-2", fen: "8/1R6/2N2P2/2kP4/2P4P/3P4/8/6K1 w - - 1 94", history: "" },
    SPos { name: "promotion", fen: "8/P1k5/K7/8/8/8/8/8 w - - 0 1", history: "" },
    SPos { name: "near-stalemate", fen: "7k/8/4Q1K1/8/8/8/8/8 w - - 0 1", history: "" },
    SPos { name: "clock-98", fen: "8/8/4k3/8/8/3K4/4P3/R7 w - - 98 80", history: "" },
    SPos { name: "black-to-move", fen: "r3k2r/p1ppqpb1/bn2pnp1/3PN3/1p2P3/2N2Q1p/PPPBBPPP/R3K2R b KQkq - 0 1", history: "" },
    SPos { name: "start+shuffle", fen: seeds::START, history: "g1f3 g8f6 f3g1 f6g8" },
    SPos { name: "perft3", fen: "8/2p5/3p4/KP5r/1R3p1k/8/4P1P1/8 w - - 0 1", history: "" },
    // beyond the first twelve: used by the thorough tiers
    SPos { name: "perft4", fen: "r3k2r/Pppp1ppp/1b3nbN/nP6/BBP1P3/q4N2/Pp1P2PP/R2Q1RK1 w kq - 0 1", history: "" },
    SPos { name: "perft5", fen: "rnbq1k1r/pp1Pbppp/2p5/8/2B5/8/PPP1NnPP/RNBQK2R w KQ - 1 8", history: "" },
    SPos { name: "perft6", fen: "r4rk1/1pp1qppp/p1np1n2/2b1p1B1/2B1P1b1/P1NP1N2/1PP1QPPP/R4RK1 w - - 0 10", history: "" },
    SPos { name: "ep-available", fen: "4k3/8/8/2pPp3/8/8/8/4K3 w - c6 0 2", history: "" },
    SPos { name: "castle-both", fen: "r3k2r/8/8/8/8/8/8/R3K2R w KQkq - 0 1", history: "" },
    SPos { name: "back-rank", fen: "6k1/5ppp/8/8/8/8/8/R3K3 w Q - 0 1", history: "" },
    SPos { name: "smothered", fen: "6rk/6pp/8/6N1/8/8/8/7K w - - 0 1", history: "" },
    SPos { name: "kr-k", fen: "7k/8/6K1/8/8/8/8/R7 w - - 0 1", history: "" },
    SPos { name: "kp-k", fen: "8/8/8/4k3/8/8/4P3/4K3 w - - 0 1", history: "" },
    SPos { name: "double-check", fen: "4k3/8/8/8/4N3/8/8/4RK2 w - - 0 1", history: "" },
    SPos { name: "promo-race", fen: "8/1P6/8/8/8/8/1p6/K6k w - - 0 1", history: "" },
    SPos { name: "black-in-check", fen: "4k3/8/8/8/8/8/4R3/4K3 b - - 0 1", history: "" },
    SPos { name: "threefold", fen: "8/5ppk/7p/8/P1P1PQ2/8/Pr2N1KR/8 w - - 3 42", history: "f4f5 h7g8 f5c8 g8h7" },
    SPos { name: "kiwipete+kingwalk", fen: seeds::KIWIPETE, history: "e1f1 e8f8 f1e1 f8e8" },
    SPos { name: "clock-99-b", fen: "8/3p4/4k3/8/8/3K4/8/R7 b - - 99 80", history: "" },
    SPos { name: "queen-vs-rook", fen: "8/8/8/4k3/8/2r5/8/3QK3 w - - 0 1", history: "" },
    SPos { name: "hanging-queen", fen: "rnb1kbnr/pppp1ppp/8/4p3/4P2q/5N2/PPPP1PPP/RNBQKB1R w KQkq - 2 3", history: "" },
    SPos { name: "stale-or-mate", fen: "8/k1P5/8/1K6/8/8/8/8 w - - 0 1", history: "" },
    SPos { name: "underpromotion", fen: "8/5P1k/8/8/8/8/8/K7 w - - 0 1", history: "" },
    SPos { name: "bench03", fen: "r3qbrk/6p1/2b2pPp/p3pP1Q/PpPpP2P/3P1B2/2PB3K/R5R1 w - - 16 42", history: "" },
    SPos { name: "bench-ep", fen: "r3k2r/2pb1ppp/2pp1q2/p7/1nP1B3/1P2P3/P2N1PPP/R2QK2R w KQkq a6 0 14", history: "" },
    SPos { name: "two-kings-pawns", fen: "8/p7/8/8/8/8/P7/K6k b - - 0 1", history: "" },
    SPos { name: "mated-soon-b", fen: "6k1/5ppp/8/8/8/8/8/R3K3 b Q - 0 1", history: "" },
    SPos { name: "discovered", fen: "8/8/1P2K3/8/2n5/1q6/8/5k2 b - - 0 1", history: "" },
];

/// Positions in which the side to move is lost whatever it plays (every root move's score drops
/// far below the previous iteration's once the search is deep enough): used by C09 and C14 in
/// both tiers in addition to `P9`.
pub const LOSING: &[SPos] = &[
    SPos { name: "facing-mate-in-2-b", fen: "8/1R3P2/2N5/2kP4/2P4P/3P4/8/6K1 b - - 0 94", history: "" },
    SPos { name: "facing-mate-in-1-b", fen: "7k/8/5K2/6Q1/8/8/8/8 b - - 0 1", history: "" },
    SPos { name: "facing-mate-in-2-w", fen: "7K/8/5k2/6q1/8/8/8/8 w - - 0 1", history: "" },
    SPos { name: "facing-back-rank-w", fen: "r3k3/8/8/8/8/8/5PPP/6K1 w q - 0 1", history: "" },
    SPos { name: "facing-ladder-b", fen: "7k/8/8/8/8/8/R7/1R4K1 b - - 0 1", history: "" },
    // in check, a single legal reply, after which the opponent mates in one; the first generated king move is illegal
    SPos { name: "forced-into-mate-w", fen: "8/8/8/8/8/8/5k2/4q2K w - - 0 1", history: "" },
    SPos { name: "forced-into-mate-b", fen: "4Q2k/5K2/8/8/8/8/8/8 b - - 0 1", history: "" },
    // not lost at all, but one ply away the opponent has no pseudo-legal move whatsoever (every
    // piece and pawn is blocked by its own side or by a pawn in front of it): stalemate nodes
    // with an EMPTY move list inside the tree
    SPos { name: "fully-blocked-opponent-w", fen: "5brk/4p1pn/4PpP1/4NPp1/6P1/8/8/QR2K3 w - - 0 1", history: "" },
    SPos { name: "fully-blocked-opponent-b", fen: "qr2k3/8/8/6p1/4npP1/4pPp1/4P1PN/5BRK b - - 0 1", history: "" },
];

/// Positions whose search stays tiny at any depth (forced mates, a single legal move): searched
/// with the largest depth limits the protocol value allows (`go depth 254`, `go depth 255`).
pub const DEEP: &[SPos] = &[
    SPos { name: "deep-mate-in-1", fen: "7k/8/5K2/6Q1/8/8/8/8 w - - 0 1", history: "" },
    SPos { name: "deep-one-legal-move", fen: "7k/8/8/8/8/8/6q1/7K w - - 0 1", history: "" },
    SPos { name: "deep-near-stalemate", fen: "7k/8/4Q1K1/8/8/8/8/8 w - - 0 1", history: "" },
    SPos { name: "deep-promotion-mate", fen: "8/1R3P2/2Nk4/3P4/2P4P/3P4/8/6K1 w - - 1 95", history: "" },
];

/// Every listed position must be a legal position with at least one legal move (machinery error
/// otherwise: an illegal position - side not to move in check - is outside every property's domain).
pub fn validate() -> Result<(), String> {
    for p in P9.iter().chain(DENSE.iter()).chain(LOSING.iter()).chain(DEEP.iter()) {
        let (_, pos, _) = super::searchrun::open(p.fen, &hist(p)).map_err(|e| format!("search position {}: {e}", p.name))?;
        if pos.legal_moves().is_empty() {
            return Err(format!("search position {} has no legal move", p.name));
        }
    }
    Ok(())
}

/// Capture-dense positions: the quiescence tree below almost every node is enormous, so a search
/// only ends in time if the limits are also polled inside quiescence. Used ONLY with limits that
/// end the search early (time, nodes, stop) - a depth-only search of these never finishes.
pub const DENSE: &[SPos] = &[
    SPos { name: "dense-queens", fen: "qqqqkqqq/1qq2qq1/8/8/8/8/1QQ2QQ1/QQQQKQQQ w - - 0 1", history: "" },
    SPos { name: "dense-rooks-queens", fen: "rqrqkrqr/qrqrqrqr/8/8/8/8/QRQRQRQR/RQRQKRQR w - - 0 1", history: "" },
    SPos { name: "dense-minor", fen: "nbnbkbnb/bnbnbnbn/8/8/8/8/NBNBNBNB/BNBNKNBN b - - 0 1", history: "" },
];

pub fn case_seed(p: &SPos) -> Seed {
    Seed {
        name: p.name.to_string(),
        fen: p.fen.to_string(),
        prefix: p.history.split_whitespace().map(str::to_string).collect(),
        class: seeds::Class::Core,
    }
}

pub fn hist(p: &SPos) -> Vec<String> {
    p.history.split_whitespace().map(str::to_string).collect()
}
