#!/bin/bash
# tools/import_seed.sh <ID> <first index>: imports /tmp/seedwork/<ID>/SEED/{1,2} as seeded/<ID>-<n>, <ID>-<n+1>,
# confirms each in the VERIFY scratch worktree, evaluates it against the quick check of its property on the
# scratch worktree RCE_REPO (default /tmp/seedwork/EVAL2) and appends the DETECT line to seeded/MATRIX.txt.
V="$(cd "$(dirname "$0")/.." && pwd)"; cd "$V"
id="$1"; n="$2"
export RCE_REPO="${RCE_REPO:-/tmp/seedwork/EVAL2}"
for k in 1 2; do
  src="/tmp/seedwork/$id/SEED/$k"; [ -f "$src/patch.diff" ] || continue
  d="seeded/$id-$n"; mkdir -p "$d"; cp -r "$src"/* "$d"/
  tools/confirm_seed.sh "$d" 2>&1 | tail -1 | cut -c1-40,150-
  out=$(timeout 3000 tools/eval_seed.sh "$d" "$id" 2>&1)
  echo "$out" | tail -2 | cut -c1-330
  sed -i "\#^DETECT seeded/$id-$n #d" seeded/MATRIX.txt
  echo "$out" | grep "^DETECT" >> seeded/MATRIX.txt
  n=$((n+1))
done
