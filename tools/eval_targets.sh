#!/bin/bash
# Every seeded change against the quick check of the property it was written for (scratch worktree RCE_REPO).
V="$(cd "$(dirname "$0")/.." && pwd)"
out="$V/seeded/MATRIX.txt"; : > "$out"
for d in "$V"/seeded/*/; do
  [ -f "$d/patch.diff" ] || continue
  n=$(basename "$d"); id=${n%%-*}
  timeout 3000 "$V/tools/eval_seed.sh" "$d" "$id" 2>&1 | grep "^DETECT" | tee -a "$out"
done
