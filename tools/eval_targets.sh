#!/bin/bash
# Every seeded change against the quick check of the property it was written for (scratch worktree RCE_REPO).
# SHARD=i/n evaluates every n-th seed only and writes seeded/MATRIX.<i>.txt (merge: cat seeded/MATRIX.?.txt | sort -V).
V="$(cd "$(dirname "$0")/.." && pwd)"
sh="${SHARD:-0/1}"; i=${sh%%/*}; n=${sh##*/}
out="$V/seeded/MATRIX.txt"; [ "$n" != 1 ] && out="$V/seeded/MATRIX.$i.txt"
: > "$out"
k=0
for d in "$V"/seeded/*/; do
  [ -f "$d/patch.diff" ] || continue
  k=$((k+1)); [ $((k % n)) -eq "$i" ] || continue
  nm=$(basename "$d"); id=${nm%%-*}
  timeout 3000 "$V/tools/eval_seed.sh" "$d" "$id" 2>&1 | grep "^DETECT" | tee -a "$out"
done
