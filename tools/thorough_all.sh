#!/bin/bash
# Runs every thorough tier once, sequentially (validation of the thorough tiers; not evidence).
cd "$(dirname "$0")/.."
./check build >/dev/null 2>&1
for p in ${THOROUGH_LIST:-C06 C17 C10 C14 C16 C15 C09 C13 C03 C02 C04 C01 C05 C07 C08 C12 C11}; do
  s=$(date +%s)
  out=$(./check $p thorough 2>&1); rc=$?
  echo "$p exit=$rc $(( $(date +%s) - s ))s :: $(echo "$out" | grep -E "^$p thorough" | cut -c1-160)"
  [ $rc -ne 0 ] && echo "$out" | grep -E -A1 "^(VIOLATION|MACHINERY)" | head -12 | cut -c1-400
done
