#!/usr/bin/env python3
import json, sys, os, glob
import jsonschema
V = os.path.dirname(os.path.dirname(os.path.abspath(__file__)))
m = json.load(open(os.path.join(V, "MANIFEST.json")))
jsonschema.validate(m, json.load(open("/root/.vp/MANIFEST.schema.json")))
es = json.load(open("/root/.vp/EVIDENCE.schema.json"))
bad = 0
for c in m["checks"]:
    p = c["evidence_file"]
    if not os.path.exists(p):
        print("missing evidence", p); bad += 1; continue
    try:
        jsonschema.validate(json.load(open(p)), es)
    except Exception as e:
        print("INVALID", p, str(e)[:300]); bad += 1
print("manifest valid;", len(m["checks"]), "checks;", bad, "evidence problems")
sys.exit(1 if bad else 0)
