#!/bin/bash
# tools/run_mutant.sh [--tests] <patch> <ID> [<ID>...] : apply a patch to /repo, run checks, revert.
set -u
V="$(cd "$(dirname "$0")/.." && pwd)"
tests=0; [ "${1:-}" = "--tests" ] && { tests=1; shift; }
patch="$(realpath "$1")"; shift
tier="${MUT_TIER:-quick}"
cd /repo || exit 2
git diff --quiet || { echo "/repo has uncommitted changes" >&2; exit 2; }
git apply "$patch" || { echo "patch does not apply: $patch" >&2; exit 2; }
trap 'git -C /repo checkout -- . ; git -C /repo clean -fdq src' EXIT
res=""
if [ $tests = 1 ]; then
  if cargo test --workspace --no-fail-fast --offline > "$V/.work/mut_tests.log" 2>&1; then res+=" tests=pass"; else res+=" tests=FAIL"; fi
fi
for id in "$@"; do
  out=$("$V/check" "$id" "$tier" 2>&1); rc=$?
  n=$(echo "$out" | grep -c '^VIOLATION')
  res+=" $id:exit=$rc,viol=$n"
  echo "$out" | grep -E "^(VIOLATION|  what|MACHINERY)" | head -4 | cut -c1-300
done
echo "MUTANT $(basename "$patch"):$res"
