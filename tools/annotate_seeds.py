#!/usr/bin/env python3
"""Adds to each seeded/<id>/meta.json: how it was confirmed and which checks detect it (from seeded/MATRIX.txt)."""
import json, os, re, sys
V = os.path.dirname(os.path.dirname(os.path.abspath(__file__)))
matrix = {}
mp = os.path.join(V, "seeded", "MATRIX.txt")
if os.path.exists(mp):
    for line in open(mp):
        m = re.match(r"DETECT seeded/(\S+) tier=(\w+):(.*)", line.strip())
        if m:
            name, tier, rest = m.groups()
            det = [x.split("=")[0] for x in rest.split() if x.endswith("=1")]
            mach = [x.split("=")[0] for x in rest.split() if x.endswith("=2")]
            matrix[name] = (tier, det, mach)
for d in sorted(os.listdir(os.path.join(V, "seeded"))):
    mj = os.path.join(V, "seeded", d, "meta.json")
    if not os.path.exists(mj):
        continue
    meta = json.load(open(mj))
    meta["breaks_property"] = meta.get("property")
    meta["needs_to_manifest"] = meta.get("needs")
    meta["confirmed"] = {
        "how": "tools/confirm_seed.sh seeded/%s in the scratch worktree /tmp/seedwork/VERIFY (outside /repo and /verif)" % d,
        "suite_with_patch": "cargo test --offline: 329 passed; 0 failed",
        "demonstration": "fails with patch.diff applied, passes without it",
    }
    if d in matrix:
        tier, det, mach = matrix[d]
        meta["checks_run"] = "tools/eval_seed.sh seeded/%s (%s tier of the property it was written against, patch applied to a scratch worktree and undone afterwards; earlier evaluations against other checks are summarised in DESIGN.md 9.4)" % (d, tier)
        meta["detected_by"] = det
        if mach:
            meta["machinery_errors_in"] = mach
    json.dump(meta, open(mj, "w"), indent=1)
    print(d, meta.get("detected_by"))
