#!/bin/bash
# Full matrix: every seeded change x every check (quick tier), on a scratch worktree given by RCE_REPO
# (default /repo). Writes seeded/MATRIX.txt in the current /verif tree.
V="$(cd "$(dirname "$0")/.." && pwd)"
out="$V/seeded/MATRIX.txt"; : > "$out"
for d in "$V"/seeded/*/; do
  [ -f "$d/patch.diff" ] || continue
  "$V/tools/eval_seed.sh" "$d" 2>&1 | grep "^DETECT" | tee -a "$out"
done
