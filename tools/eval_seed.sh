#!/bin/bash
# tools/eval_seed.sh <seed dir> [ID ...]: apply the seeded change to /repo, run quick checks (default: all 17),
# undo it straight afterwards. Prints one DETECT line.
set -u
V="$(cd "$(dirname "$0")/.." && pwd)"
D="$(realpath "$1")"; shift
ids=("$@"); [ ${#ids[@]} -eq 0 ] && ids=(C01 C02 C03 C04 C05 C06 C07 C08 C09 C10 C11 C12 C13 C14 C15 C16 C17)
tier="${MUT_TIER:-quick}"
R="${RCE_REPO:-/repo}"
cd "$R" || exit 2
git diff --quiet || { echo "$R has uncommitted changes" >&2; exit 2; }
# plain apply first; a patch written against an earlier commit of /repo (before a later fix: commit
# touched neighbouring lines) is merged three-way from the blob ids it records
git apply "$D/patch.diff" 2>/dev/null || git apply --3way "$D/patch.diff" >/dev/null 2>&1 || { git -C "$R" reset -q --hard HEAD; echo "patch does not apply" >&2; exit 2; }
trap 'git -C "$R" reset -q --hard HEAD ; git -C "$R" clean -fdq src' EXIT
res=""
for id in "${ids[@]}"; do
  out=$("$V/check" "$id" "$tier" 2>&1); rc=$?
  [ $rc -ne 0 ] && res+=" $id=$rc"
  if [ $rc -eq 1 ]; then echo "$out" | grep -A1 "^VIOLATION" | grep "what:" | head -1 | cut -c1-260 | sed "s/^/    [$id] /"; fi
  if [ $rc -eq 2 ]; then echo "$out" | grep MACHINERY | head -2 | cut -c1-260 | sed "s/^/    [$id] /"; fi
done
echo "DETECT $(basename "$(dirname "$D")")/$(basename "$D") tier=$tier:${res:- none}"
