#!/usr/bin/env python3
"""Generates /verif/MANIFEST.json from the table below (kept in one place so it stays valid)."""
import json, subprocess, os
V = os.path.dirname(os.path.dirname(os.path.abspath(__file__)))

WALK_NOTE = ("Trusted base: the independent mailbox oracle (re-validated against published perft totals on every run), "
             "rustc, and Board::from_fen for opening seeds (cross-checked against the oracle's own FEN reader at depth 0). "
             "Bounded: seeds x depth; positions outside the explored neighbourhoods are not covered.")

CHECKS = {
 "C01": dict(tech="explicit-state exploration of the real make/unmake transition function (DFS, iterated depth bound) with set-equality against an independent rules oracle at every state",
   text="Every position within the completed depth of ~260 feature-rich seeds (and their colour mirrors) is visited on the real Board; at each one the engine's legal-move multiset (with capture/en-passant/castle/double-push/promotion flags) and is_in_check for both colours must equal the oracle's; after every child's unmake the move list is generated again on the same live board and must be unchanged. Exhaustive within the stated depth bounds, not sampled.",
   ref="2/C01", note=WALK_NOTE),
 "C02": dict(tech="explicit-state exploration: every stack-disciplined make/unmake sequence up to the depth bound, whole-state snapshot equality after every unmake and after every query",
   text="The DFS itself is the set of all nested make/unmake sequences of length <= depth from every seed (including seeds whose history already repeats a position). Board == snapshot (derived PartialEq over every field) is demanded after each make+subtree+unmake, after get_legal_moves() and after find_move().",
   ref="2/C02", note=WALK_NOTE),
 "C03": dict(tech="explicit-state exploration with a lock-step reference state machine (oracle) compared after every transition",
   text="After every make_move in the explored trees all engine observables (64 squares, side, 4 rights, en-passant file, both clocks) must equal the oracle's state, and the set of remembered position keys must equal the set of keys of the earlier positions of that game.",
   ref="2/C03", note=WALK_NOTE),
 "C04": dict(tech="explicit-state exploration; invariant key==from-scratch==from-FEN on every state and after every unmake, plus a single-valued identity->key table across all transpositions reached",
   text="On every explored state the incremental key must equal ZKey::from(&board) and the key of the same position loaded from the oracle's FEN; after every unmake it must equal the key before the move; across the whole run each position identity maps to exactly one key (path independence over every transposition the walk reaches).",
   ref="2/C04", note=WALK_NOTE),
 "C05": dict(tech="explicit-state exploration with a key->identity injectivity table over all visited positions, plus exhaustive enumeration of the single-component perturbation alphabet (~850 variants) on a subset",
   text="All pairs among the visited identities are compared through the key->identity table (no two identities may share a key); for a subset of positions every single-component perturbation (side, each right, each en-passant file, each of 64 squares x 13 contents) must change the key. After one move from each perturbed position the engine's repetition record (position_reached) must know that position's own key and none of the variants' keys.",
   ref="2/C05", note=WALK_NOTE + " A genuine 64-bit collision is possible in principle (p < 1e-4 at 50M keys)."),
 "C06": dict(tech="complete enumeration of the input domain (64 squares x every subset of the squares on the slider's lines x a background family; all 64 squares for leapers and pawns) against a square-by-square ray walk",
   text="The finite input space of the attack tables is enumerated completely in both tiers: rook 64 x 2^14 line subsets, bishop every line subset, queen every subset of one line family under {empty, full, every single square} of the other, each under the off-line backgrounds {empty, all, every single square} and with the own square occupied or not; knight, king and both pawn colours on all 64 squares. exhaustive=true.",
   ref="2/C06", note="Trusted base: a 20-line ray walk / offset list with explicit edge tests. Full 2^64 occupancies are not enumerated: off-line squares are covered by the background family because the engine masks them out.", engine="tables"),
 "C07": dict(tech="exhaustive enumeration of a generated FEN family per explored base position (all castling subsets, all valid en-passant squares, clock boundary grid, full 151x6000 clock grid on 3 bases) against an independent FEN reader, plus depth-bounded bisimulation played-vs-loaded on the real Board",
   text="Every base position of an explorer walk is turned into its complete family of valid FEN strings (6-field and 4-field; every castling subset consistent with king/rook placement; none and every valid en-passant square for either side to move; 10x10 clock boundary grid) and each string loaded by Board::from_fen must agree field by field with the oracle's independent reader, have key == from-scratch key, an empty repetition memory and the rules' legal-move set; the loaded board and the board reached by play must stay observably equal under all move sequences to depth 1-2 (make and unmake).",
   ref="2/C07", note=WALK_NOTE + " Only valid FENs are generated.", engine="explorer"),
 "C17": dict(tech="complete enumeration of all 3^10 material signatures x side to move, plus explicit-state exploration of walk positions; metamorphic oracle eval(P)==eval(mirror P)==-eval(P, other side to move)",
   text="The evaluator is run on every position of an explorer walk and on all 59049 material signatures (0-2 of each non-king piece kind) x both sides to move, each together with its colour mirror and its side-swapped twin built by the oracle; the three values must satisfy the two symmetry equations.",
   ref="2/C17", note="Trusted base: the oracle's mirror construction and Board::from_fen (checked by C07). The material grid uses one fixed square arrangement per signature.", engine="explorer"),
 "C09": dict(tech="exhaustive enumeration of limit assignments (3^7) x deterministic interruption schedules (virtual clock expiring at the k-th limit check, stop at the k-th flag poll, every node budget 1..T) on the real Search code, plus bounded session enumeration on the real executable",
   text="In-process, every assignment of the seven limit kinds (absent or one of two values, including 0 and 1) is combined with every schedule in {time never passes, clock expires at limit check k, stop lands at flag poll k} on each position, plus every node budget and every stop point of a depth-2 search consecutive searches on a kept cache, a stop delivered before the search starts, shallower searches of every position two plies away on the cache of a deeper search, positions lost for the side to move at depths 1..6, searches on a cache crowded with ~82 k foreign entries, capture-dense positions under every early-ending limit, and whole self-play games with the cache kept across positions; each run must return without panicking and log exactly one bestmove that is legal in the oracle's position. On the real executable the same assignments run with the real clock, up to three go per session each followed by isready, judged with a 5 s allowance.",
   ref="2/C09", note="""Trusted base: the hook runtime in src/rce_verif.rs (virtual clock, emulated stop, cache observer) and the assumption that it is the only source of time/stop nondeterminism in-process; single-threaded worker processes own their cache. Process-level timing uses loose wall-clock allowances.""", engine="cutpoints"),
 "C13": dict(tech="exhaustive enumeration of every interruption point of a search: re-execution per cut point for small searches (every node budget 1..T, every stop poll, every clock check on both clock paths and with the budget exceeded by a day, tenfold and by less than a factor of two, also on a warmed cache) and fork-based checkpointing for large ones (the process forks at every flag poll / limit check; the child is interrupted exactly there), with a differential prefix oracle on the observed cache writes and a cache-content snapshot oracle at stop cuts",
   text="For each (position, depth) pair the search is interrupted at every point at which it can be: the cache writes seen by the observer hook in the interrupted run must be a prefix of those of the uninterrupted run from the same initial cache; after an emulated stop (noticed by the very poll that delivers it) no write at all may follow and the cache contents must equal the snapshot taken at the cut, whichever insert site wrote. Large searches (up to 105 k nodes quick / 300 k thorough) are covered by forking the live search at each poll instead of re-executing the prefix.",
   ref="2/C13, 9.5", note="Trusted base: the hook runtime in src/rce_verif.rs (observer, snapshot, emulated stop, virtual clock, fork checkpoints). 'Clock fired' and 'nodes >= budget' are deliberately NOT taken as 'the engine has noticed the cut' (an engine that polls them every N nodes notices later and may legitimately write in between); those cuts are judged by the prefix oracle only. Quick tier: every second poll / check for the one large search.", engine="cutpoints"),
 "C14": dict(tech="exhaustive enumeration of depth limits N and of every cut point of node/time-limited searches, with a UCI info-line grammar and PV replay on the oracle; bounded session enumeration on the real executable",
   text="For each position every depth limit N (fresh and kept cache) must log info depth 1..N in order, each line valid UCI with a score and a non-empty PV that is legal move by move on the oracle, then exactly one bestmove; every node budget and clock point of a depth-3 search is checked for ordering, grammar and PV legality; positions lost for the side to move, repetition-bait histories and searches on a cache crowded with ~82 k foreign entries are checked the same way; whole self-play games (one go depth 4 per ply, cache kept across the positions of the game) are checked the same way, so stale cache entries of earlier searches are on the PV walk; go depth N is repeated on the real executable.",
   ref="2/C14", note="""One sub-check is SAMPLED, not exhaustive, and labelled so in the evidence: a backlog-driven isready flood (24 rounds quick, 100 thorough) while the search thread prints ~100 iterations (both threads writing to stdout at once; a torn line is a definite violation, its absence only samples the OS scheduling). Trusted base: the hook runtime in src/rce_verif.rs (virtual clock, emulated stop, cache observer) and the assumption that it is the only source of time/stop nondeterminism in-process; single-threaded worker processes own their cache. Mate-distance correctness is not demanded.""", engine="cutpoints"),
 "C15": dict(tech="exhaustive enumeration of all token strings up to length 4 (5 on a reduced alphabet) over the UCI vocabulary through the real parser and command loop, plus all sessions of <=2 (3) representative lines on the real executable ended by quit and by end-of-input",
   text="Every token string up to the length bound is parsed by UCICommand::new under catch_unwind (a panic there kills the main thread) and a seventh of the non-search lines is executed through the real uci_loop; every numeric argument of go / setoption is parsed with all values 0..=300, every power of two up to 2^128 with its neighbours and negative boundary values; on the real executable every session of representative valid and malformed lines, each followed by isready, must answer readyok within 5 s and exit within 5 s of quit and of closed stdin.",
   ref="2/C15", note="FEN contents are not fuzzed (the property assumes valid FEN). Search-thread panics are counted but not judged by this property.", engine="sessions"),
 "C10": dict(tech="stateless exploration of all merges of a GUI command script with the search thread's labelled steps on the real executable (blocking schedule points; deviation-bounded in quick, all merges in thorough), each schedule on a fresh process and replay-checked",
   text="For seven command scripts every interleaving of the input thread's commands with the search thread's held points {enter, armed, first iteration done, before bestmove, after bestmove, exit} that respects the GUI protocol is executed on the real binary; per schedule every go must be answered by exactly one bestmove legal in the position it was given, a processed stop must bring the bestmove within 5 s, every isready a readyok, and nothing may be reported as refused. Quick: all schedules with <= 2 deviations from the default order; thorough: all of them. A failing schedule is accepted only if two of three executions agree.",
   ref="2/C10, 9.8", note="One sub-check is SAMPLED, not exhaustive, and labelled so in the evidence: a backlog-driven isready flood while the search thread prints ~100 iteration reports (24 rounds quick, 100 thorough; a torn or glued stdout line is a definite violation, its absence only samples the OS scheduling of the two threads inside the print path, where no schedule point can be placed). Trusted base: the schedule-point hand-shake in src/rce_verif.rs and the controller. Interleavings finer than the labelled points are not explored; an unbounded search is kept at its first iteration boundary until a stop is sent (a stop mid-iteration is observationally the same: the flag is read only at polls).", engine="scheduler"),
 "C08": dict(tech="explicit-state exploration of game paths replayed through the real UCI command loop, exhaustive enumeration of the 20480-string coordinate-notation alphabet per sampled position, all single-move corruptions of each path, and all command sequences up to length 4 against a 1-variable session model; conformance sessions on the real executable",
   text="Every path of an explorer walk is sent as 'position fen F moves ...' (and 'position startpos moves ...') through the real uci_loop inside a session that already holds another position; the resulting session position must equal the oracle's position after those moves in every component, with the same key and repetition record as the game played move by move. For a subset of positions every from-to-suffix string is accepted exactly when legal; every single-move corruption of a path must leave the previous position in force; all 1555 sequences of <=4 commands over {position A, position B, B with an illegal move, position with en passant, ucinewgame, isready} must end in the model's position.",
   ref="2/C08", note=WALK_NOTE + " FEN arguments are valid six-field FENs.", engine="sessions"),
 "C11": dict(tech="exhaustive comparison over a (position, depth) grid of the engine's fixed-depth result (cache neutralised by hook) with the exact minimax value of its look-ahead game computed by an unpruned reference search on the oracle (R0), with a textbook alpha-beta (R1) validated against R0 where R0 is too expensive",
   text="For each position (with and without game history, clocks near 100, one ply away from the base set) and each depth the reference can afford, the engine's root score must equal the exact value of the look-ahead game defined in the property, and the reference value of the move it picked must equal that root value. The reference shares no code with the engine (oracle move generator, own material count, plain negamax).",
   ref="2/C11", note="Trusted base: the reference searches (R1 == R0 is re-checked on every pair R0 can afford; a mismatch is a machinery error) and the tt_neutralise hook. Depths beyond the reference's node cap are not covered.", engine="refsearch"),
 "C12": dict(tech="exhaustive enumeration of cache histories (all sequences of <=2 earlier completed searches at depths 1..4, 21 per position and depth) over all solver-classified positions in the neighbourhood of mating seeds and five generated families (busy, minor-piece, many-queens, promotion, greedy-trap), judged by an exhaustive mate solver on the oracle",
   text="Every position within the bound of the mating/tactical seeds that the exhaustive solver classifies as mate-in-1, mate-in-2 or avoidable mate-in-1 threat is searched to depth 3 and 4 with the cache ON after every history of earlier completed searches of the same position; the generated families (6300 positions re-classified by the solver at run time: every decisive move a promotion, decisive moves generated after index 128, quiet keys next to a material-winning alternative, ...) are searched from a fresh cache and, for the first positions of each class, after the short list of histories; the chosen move must mate / keep a forced mate / not allow a mate in one.",
   ref="2/C12", note="Trusted base: the mate solver on the oracle. 'Keeps a forced mate' accepts any forced mate the solver establishes within two more attacker moves.", engine="refsearch"),
 "C16": dict(tech="complete enumeration of a (position, depth) grid, each pair searched three times in one process (also right after searches of its ancestors and descendants on the principal variation) and in three concurrently running worker processes whose first searches differ, plus concurrent runs of the bench subcommand compared with each other and with separately computed fresh-cache node counts",
   text="All (best move, score, nodes) triples of the grid must agree within a process (cache emptied in between; predecessor alphabet: the same position, an unrelated position, a very large search, the position one or two plies up the principal variation) and across three different processes under full CPU load whose first search is a White-to-move or a Black-to-move tactical position by process parity; concurrent bench runs must print the same node total, which must equal the sum of the 62 positions searched one by one from an empty cache.",
   ref="2/C16", note="Hash seeds and OS scheduling cannot be enumerated or owned without rewriting engine lines: those two dimensions are sampled (3 processes per pair); the check can refute determinism but supports it only for the causes it exercises.", engine="cutpoints"),
}

NOT_YET = {}

def main():
    commits = subprocess.run(["git","-C","/repo","log","--format=%h %s"],capture_output=True,text=True).stdout.splitlines()
    hooks = [c.split()[0] for c in commits if c.split(" ",1)[1].startswith("verif hooks:")]
    props = [json.loads(l)["id"] for l in open(os.path.join(V,"properties.jsonl"))]
    checks = []
    for pid in props:
        if pid not in CHECKS: continue
        c = CHECKS[pid]
        checks.append({
          "property_id": pid,
          "quick_cmd": f"./check {pid} quick",
          "thorough_cmd": f"./check {pid} thorough",
          "evidence_file": f"/verif/evidence/{pid}.json",
          "replay_cmd_template": "./check replay {path}",
          "engine": c.get("engine","explorer"),
          "level_claimed": {"category": "model_checking", "text": c["text"], "design_ref": c["ref"]},
          "level_note": c["note"],
          "technique": c["tech"],
        })
    na = [{"property_id": p, "reason": NOT_YET.get(p, "check not built yet (work in progress; see DESIGN.md section 2 for the planned model-checking design)")} for p in props if p not in CHECKS]
    m = {
      "version": 1,
      "setup_cmd": "./setup.sh",
      "hooks": {
        "guard": "--cfg rce_verif",
        "enable": "harness: /verif/harness compiles /repo/src as the same crate, build.rs emits cargo:rustc-cfg=rce_verif; engine binary: RUSTFLAGS='--cfg rce_verif' CARGO_TARGET_DIR=/verif/.target/repo cargo build --release --offline (in /repo)",
        "baseline_off_cmd": "cd /repo && cargo test --workspace --no-fail-fast --offline",
        "source_commits": hooks,
        "add_only": True,
      },
      "engines": [
        {"name": "cutpoints", "path": "/verif/harness/src/verif/cutprops.rs", "serves_properties": ["C09","C13","C14"], "kind_free_text": "stateless re-execution of the real search once per interruption point (node budget / emulated stop / virtual clock) in single-threaded worker processes"},
        {"name": "sessions", "path": "/verif/harness/src/verif/session.rs", "serves_properties": ["C08","C09","C14","C15"], "kind_free_text": "bounded enumeration of UCI command sessions on the real executable against a 1-variable session model"},
        {"name": "tables", "path": "/verif/harness/src/verif/tablesprop.rs", "serves_properties": ["C06"], "kind_free_text": "complete input-domain enumeration"},
        {"name": "refsearch", "path": "/verif/harness/src/verif/refsearch.rs", "serves_properties": ["C11","C12"], "kind_free_text": "reference negamax / alpha-beta and exhaustive mate solver on the oracle, compared with real searches in worker processes"},
        {"name": "scheduler", "path": "/verif/harness/src/verif/sched.rs", "serves_properties": ["C10"], "kind_free_text": "stateless schedule explorer over the real executable: choice-sequence DFS with deviation bound, schedule points block the engine's threads until released"},
        {"name": "explorer", "path": "/verif/harness/src/verif/explore.rs", "serves_properties": ["C01","C02","C03","C04","C05"], "kind_free_text": "explicit-state DFS over the engine's real make/unmake with an independent oracle in lock-step (16 threads)"},
      ],
      "checks": checks,
      "not_applicable": na,
      "notes": "All checks rebuild the harness (and, where needed, the hooked engine binary) from /repo's working tree via ./check. Exit 2 = machinery error, never a verdict.",
    }
    json.dump(m, open(os.path.join(V,"MANIFEST.json"),"w"), indent=1)
    print("checks:", [c["property_id"] for c in checks], "not_applicable:", [n["property_id"] for n in na])

main()
