#!/bin/bash
# tools/confirm_seed.sh <seed dir>: confirm in a scratch worktree (outside /repo and /verif) that
#  (1) the full suite passes with patch.diff, (2) the demonstration fails with it, (3) passes without it.
set -u
D="$(realpath "$1")"
W=/tmp/seedwork/VERIFY
if [ ! -d "$W" ]; then git -C /repo worktree add -q --detach "$W" HEAD || exit 2; fi
cd "$W" && git checkout -q --detach "$(git -C /repo rev-parse HEAD)" && git checkout -q -- . && git clean -fdq src
demo_cmd=$(python3 - "$D" <<'PY'
import json,sys,os
d=sys.argv[1]
demo=json.load(open(os.path.join(d,'meta.json'))).get('demo','')
if os.path.exists(os.path.join(d,'demo.diff')) and 'cargo test' in demo:
    print(demo[demo.index('cargo test'):].split('&&')[0].split('   ')[0].strip())
elif os.path.exists(os.path.join(d,'demo.sh')):
    print('bash SEED/1/demo.sh')
else:
    print(demo)
PY
)
echo "demo command: $demo_cmd"
git apply "$D/patch.diff" || { echo "CONFIRM $D: patch does not apply"; exit 1; }
suite=$(cargo test --offline 2>&1 | grep -E "^test result" | head -1)
echo "suite with patch: $suite"
[ -f "$D/demo.diff" ] && { git apply "$D/demo.diff" || { echo "demo.diff does not apply"; exit 1; }; }
[ -f "$D/demo.sh" ] && mkdir -p "$W/SEED/1" "$W/SEED/2" && cp "$D"/* "$W/SEED/1/" && cp "$D"/* "$W/SEED/2/" && cargo build --offline >/dev/null 2>&1
( eval "$demo_cmd" ) > /tmp/seedwork/confirm_with.log 2>&1; with=$?
git apply -R "$D/patch.diff" || { echo "cannot revert patch"; exit 1; }
[ -f "$D/demo.sh" ] && cargo build --offline >/dev/null 2>&1
( eval "$demo_cmd" ) > /tmp/seedwork/confirm_without.log 2>&1; without=$?
git checkout -q -- . ; git clean -fdq src; rm -rf demo.sh SEED
ok=no
if echo "$suite" | grep -q "329 passed; 0 failed" && [ $with -ne 0 ] && [ $without -eq 0 ]; then ok=yes; fi
echo "CONFIRM $(basename "$(dirname "$D")")/$(basename "$D"): suite=[$suite] demo_with_patch_exit=$with demo_without_patch_exit=$without confirmed=$ok"
