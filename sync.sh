#!/bin/bash
# Re-synchronise the in-crate harness with /repo's current working tree:
#  - src/<entry>: content-synchronised copies of /repo/src/<entry>
#  - main.rs generated from main.rs.in + the `mod` list of /repo/src/main.rs
#  - Cargo.toml generated from Cargo.toml.in + /repo's [dependencies]; Cargo.lock, rust-toolchain copied
set -euo pipefail
V="$(cd "$(dirname "$0")" && pwd)"
REPO="${RCE_REPO:-/repo}"
H="$V/harness"
# engine sources are COPIED into harness/src by content (rsync -c): a file's mtime changes exactly
# when its content changes, so cargo's mtime-based freshness test cannot be fooled by a source tree
# that was restored with old timestamps; `mod x;` and crate:: paths resolve unchanged
for l in "$H"/src/*; do
  if [ -L "$l" ]; then rm -f "$l"; fi
done
[ -e "$REPO/src/verif" ] && { echo "sync: /repo/src/verif clashes with the harness module" >&2; exit 2; }
rsync -rc --delete --exclude '/main.rs' --exclude '/main.rs.in' --exclude '/verif/' --exclude '/.main.*' "$REPO/src/" "$H/src/"
mods=$(grep -E '^\s*(pub\s+)?mod\s+[a-z_0-9]+\s*;' "$REPO/src/main.rs" | sed -E 's/^\s*(pub\s+)?mod\s+([a-z_0-9]+)\s*;.*/\2/' | sort -u)
decl=""
for m in $mods; do
  decl+="mod $m;\n"
done
tmp=$(mktemp "$H/src/.main.XXXXXX")
awk -v d="$decl" '{ if ($0 ~ /\/\/@ENGINE_MODS@/) { printf "%s", d } else print }' "$H/src/main.rs.in" | sed 's/\\n/\n/g' > "$tmp"
if ! cmp -s "$tmp" "$H/src/main.rs" 2>/dev/null; then mv "$tmp" "$H/src/main.rs"; else rm -f "$tmp"; fi
tmp=$(mktemp "$H/.cargo.XXXXXX")
{ cat "$H/Cargo.toml.in"; awk '/^\[dependencies\]/{p=1} /^\[/{ if ($0 !~ /^\[dependencies\]/) p=0 } p' "$REPO/Cargo.toml"; } > "$tmp"
if ! cmp -s "$tmp" "$H/Cargo.toml" 2>/dev/null; then mv "$tmp" "$H/Cargo.toml"; else rm -f "$tmp"; fi
[ -f "$H/Cargo.lock" ] || cp "$REPO/Cargo.lock" "$H/Cargo.lock"
cmp -s "$REPO/rust-toolchain" "$H/rust-toolchain" 2>/dev/null || cp "$REPO/rust-toolchain" "$H/rust-toolchain"
