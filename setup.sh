#!/bin/bash
# Build the framework from files on disk only (offline).
set -eu
cd "$(dirname "$0")"
./check build
.target/harness/release/verif selfcheck
